//! Stand-in for `slab::Slab` (verification builds only): the same Vec-backed free-list
//! algorithm as slab 0.4 for the API subset h2 uses - identical key assignment (LIFO reuse
//! of removed slots, else the next fresh slot) - with two changes that matter to CBMC only:
//!
//! * re-occupying a vacant slot overwrites it with `ptr::write` instead of an assignment.
//!   An assignment runs the drop glue of the old `Entry<T>`; the old entry is `Vacant`, so
//!   nothing is ever dropped at run time, but CBMC cannot fold the discriminant it reads back
//!   from the heap and explores the full drop glue of `T` (for `Frame`: HeaderMap buckets,
//!   Bytes vtables) on every insert;
//! * the backing vector is allocated once with `CAP` slots and never grows; inserting more
//!   than `CAP` entries panics ("at most CAP records" is a stated bound of every harness).
use core::ops;

pub const CAP: usize = 8;

#[derive(Debug)]
enum Entry<T> {
    Vacant(usize),
    Occupied(T),
}

#[derive(Debug)]
pub struct Slab<T> {
    entries: Vec<Entry<T>>,
    len: usize,
    next: usize,
}

impl<T> Default for Slab<T> {
    fn default() -> Self {
        Self::new()
    }
}

impl<T> Slab<T> {
    pub fn new() -> Self {
        Slab { entries: Vec::with_capacity(CAP), len: 0, next: 0 }
    }
    pub fn with_capacity(_capacity: usize) -> Self {
        Self::new()
    }
    pub fn len(&self) -> usize {
        self.len
    }
    pub fn is_empty(&self) -> bool {
        self.len == 0
    }
    pub fn vacant_key(&self) -> usize {
        self.next
    }
    pub fn get(&self, key: usize) -> Option<&T> {
        match self.entries.get(key) {
            Some(Entry::Occupied(val)) => Some(val),
            _ => None,
        }
    }
    pub fn get_mut(&mut self, key: usize) -> Option<&mut T> {
        match self.entries.get_mut(key) {
            Some(&mut Entry::Occupied(ref mut val)) => Some(val),
            _ => None,
        }
    }
    pub fn contains(&self, key: usize) -> bool {
        matches!(self.entries.get(key), Some(&Entry::Occupied(_)))
    }
    pub fn insert(&mut self, val: T) -> usize {
        let key = self.next;
        self.insert_at(key, val);
        key
    }
    fn insert_at(&mut self, key: usize, val: T) {
        self.len += 1;
        if key == self.entries.len() {
            assert!(key < CAP, "slab shim: more than CAP entries (outside the stated bound)");
            // capacity was reserved up front: write in place, no growth path
            unsafe {
                core::ptr::write(self.entries.as_mut_ptr().add(key), Entry::Occupied(val));
                self.entries.set_len(key + 1);
            }
            self.next = key + 1;
        } else {
            self.next = match self.entries.get(key) {
                Some(&Entry::Vacant(next)) => next,
                _ => unreachable!(),
            };
            // the slot holds a `Vacant` entry: nothing to drop, overwrite in place
            unsafe {
                core::ptr::write(self.entries.as_mut_ptr().add(key), Entry::Occupied(val));
            }
        }
    }
    pub fn try_remove(&mut self, key: usize) -> Option<T> {
        if let Some(entry) = self.entries.get_mut(key) {
            if let Entry::Occupied(_) = entry {
                let val = match core::mem::replace(entry, Entry::Vacant(self.next)) {
                    Entry::Occupied(val) => val,
                    _ => unreachable!(),
                };
                self.len -= 1;
                self.next = key;
                return Some(val);
            }
        }
        None
    }
    #[track_caller]
    pub fn remove(&mut self, key: usize) -> T {
        self.try_remove(key).expect("invalid key")
    }
}

impl<T> ops::Index<usize> for Slab<T> {
    type Output = T;
    #[track_caller]
    fn index(&self, key: usize) -> &T {
        match self.entries.get(key) {
            Some(Entry::Occupied(v)) => v,
            _ => panic!("invalid key"),
        }
    }
}

impl<T> ops::IndexMut<usize> for Slab<T> {
    #[track_caller]
    fn index_mut(&mut self, key: usize) -> &mut T {
        match self.entries.get_mut(key) {
            Some(&mut Entry::Occupied(ref mut v)) => v,
            _ => panic!("invalid key"),
        }
    }
}
