//! Association-list stand-in for `indexmap::IndexMap` (verification builds only).
//! Same observable contract for the API subset h2 uses: insertion order,
//! `swap_remove` moves the last entry into the hole.
pub mod map {
    #[derive(Debug, Clone)]
    pub struct IndexMap<K, V> {
        pub(crate) entries: Vec<(K, V)>,
    }
    pub enum Entry<'a, K, V> {
        Occupied(OccupiedEntry<'a, K, V>),
        Vacant(VacantEntry<'a, K, V>),
    }
    pub struct OccupiedEntry<'a, K, V> {
        map: &'a mut IndexMap<K, V>,
        index: usize,
    }
    pub struct VacantEntry<'a, K, V> {
        map: &'a mut IndexMap<K, V>,
        key: K,
    }
    impl<K: PartialEq, V> IndexMap<K, V> {
        pub fn new() -> Self { IndexMap { entries: Vec::new() } }
        pub fn len(&self) -> usize { self.entries.len() }
        pub fn is_empty(&self) -> bool { self.entries.is_empty() }
        fn position(&self, key: &K) -> Option<usize> {
            let mut i = 0;
            while i < self.entries.len() {
                if self.entries[i].0 == *key { return Some(i); }
                i += 1;
            }
            None
        }
        pub fn get(&self, key: &K) -> Option<&V> {
            match self.position(key) { Some(i) => Some(&self.entries[i].1), None => None }
        }
        pub fn contains_key(&self, key: &K) -> bool { self.position(key).is_some() }
        pub fn insert(&mut self, key: K, value: V) -> Option<V> {
            match self.position(&key) {
                Some(i) => Some(core::mem::replace(&mut self.entries[i].1, value)),
                None => { self.entries.push((key, value)); None }
            }
        }
        pub fn get_index(&self, index: usize) -> Option<(&K, &V)> {
            match self.entries.get(index) { Some(e) => Some((&e.0, &e.1)), None => None }
        }
        pub fn swap_remove(&mut self, key: &K) -> Option<V> {
            match self.position(key) { Some(i) => Some(self.entries.swap_remove(i).1), None => None }
        }
        pub fn entry(&mut self, key: K) -> Entry<'_, K, V> {
            match self.position(&key) {
                Some(index) => Entry::Occupied(OccupiedEntry { map: self, index }),
                None => Entry::Vacant(VacantEntry { map: self, key }),
            }
        }
    }
    impl<'a, K, V> OccupiedEntry<'a, K, V> {
        pub fn key(&self) -> &K { &self.map.entries[self.index].0 }
        pub fn get(&self) -> &V { &self.map.entries[self.index].1 }
    }
    impl<'a, K, V> VacantEntry<'a, K, V> {
        pub fn insert(self, value: V) -> &'a mut V {
            self.map.entries.push((self.key, value));
            let i = self.map.entries.len() - 1;
            &mut self.map.entries[i].1
        }
    }
}
pub use map::IndexMap;
