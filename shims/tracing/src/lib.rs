//! No-op stand-in for the `tracing` crate (verification builds only).
#[macro_export] macro_rules! trace { ($($t:tt)*) => {{}}; }
#[macro_export] macro_rules! debug { ($($t:tt)*) => {{}}; }
#[macro_export] macro_rules! info { ($($t:tt)*) => {{}}; }
#[macro_export] macro_rules! warn { ($($t:tt)*) => {{}}; }
#[macro_export] macro_rules! error { ($($t:tt)*) => {{}}; }
#[macro_export] macro_rules! trace_span { ($($t:tt)*) => { $crate::Span::none() }; }
#[macro_export] macro_rules! debug_span { ($($t:tt)*) => { $crate::Span::none() }; }
#[macro_export] macro_rules! info_span { ($($t:tt)*) => { $crate::Span::none() }; }

#[derive(Clone, Debug, Default)]
pub struct Span;
pub struct Entered<'a>(core::marker::PhantomData<&'a ()>);
impl Span {
    pub fn none() -> Span { Span }
    pub fn current() -> Span { Span }
    pub fn enter(&self) -> Entered<'_> { Entered(core::marker::PhantomData) }
    pub fn follows_from(&self, _s: Span) -> &Self { self }
    pub fn in_scope<F: FnOnce() -> T, T>(&self, f: F) -> T { f() }
}
pub mod instrument {
    use core::future::Future;
    use core::pin::Pin;
    use core::task::{Context, Poll};
    #[derive(Debug)]
    pub struct Instrumented<T> { inner: T }
    impl<T: Future> Future for Instrumented<T> {
        type Output = T::Output;
        fn poll(self: Pin<&mut Self>, cx: &mut Context<'_>) -> Poll<Self::Output> {
            // SAFETY: structural pin projection of the only field.
            unsafe { self.map_unchecked_mut(|s| &mut s.inner) }.poll(cx)
        }
    }
    pub trait Instrument: Sized {
        fn instrument(self, _span: crate::Span) -> Instrumented<Self> { Instrumented { inner: self } }
        fn in_current_span(self) -> Instrumented<Self> { Instrumented { inner: self } }
    }
    impl<T: Sized> Instrument for T {}
}
pub use instrument::Instrument;
