// harness bodies for h2 src/share.rs (compiled in-crate as `verif_h`, feature "verif")
