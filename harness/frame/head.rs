// harness bodies for h2 src/frame/head.rs (compiled in-crate as `verif_h`, feature "verif")
use super::*;

/// Independent RFC 9113 §4.1 frame-header parser (reference; shares no code with h2).
/// returns (length, type, flags, reserved bit, stream id)
pub(crate) fn ref_parse_head(b: &[u8; 9]) -> (u32, u8, u8, bool, u32) {
    let len = ((b[0] as u32) << 16) | ((b[1] as u32) << 8) | (b[2] as u32);
    let sid = ((b[5] as u32) << 24) | ((b[6] as u32) << 16) | ((b[7] as u32) << 8) | (b[8] as u32);
    (len, b[3], b[4], sid >> 31 == 1, sid & 0x7fff_ffff)
}

/// C08.head / C12.head: `Head::parse` on every 9-byte string agrees with the
/// reference parser, ignores the reserved bit, maps unknown types to `Unknown`;
/// `Head::encode` writes what the reference parser reads back.
pub fn c12_head_parse_encode() {
    let b: [u8; 9] = kani::any();
    let h = Head::parse(&b);
    let (_len, ty, flags, _r, sid) = ref_parse_head(&b);
    assert!(u32::from(h.stream_id()) == sid, "Head::parse stream id");
    assert!(h.flag() == flags, "Head::parse flags");
    if ty <= 9 {
        assert!(h.kind() as u8 == ty, "Head::parse kind");
    } else {
        assert!(h.kind() == Kind::Unknown, "unknown frame type not mapped to Unknown");
    }
    // encode what was parsed with an arbitrary 24-bit length
    let plen: usize = kani::any();
    kani::assume(plen < (1 << 24));
    if ty <= 9 {
        let mut out = [0u8; 9];
        let mut dst = &mut out[..];
        h.encode(plen, &mut dst);
        assert!(dst.len() == 0, "Head::encode must write exactly 9 bytes");
        let (l2, t2, f2, r2, s2) = ref_parse_head(&out);
        assert!(l2 as usize == plen, "Head::encode length field");
        assert!(t2 == ty && f2 == flags && s2 == sid, "Head::encode fields");
        assert!(!r2, "Head::encode sets the reserved bit");
    }
    kani::cover!(ty > 9, "unknown_kind");
    kani::cover!(b[5] & 0x80 != 0, "reserved_bit_set");
    kani::cover!(true, "end");
}
