// harness bodies for h2 src/frame/head.rs (compiled in-crate as `verif_h`, feature "verif")
