// harness bodies for h2 src/frame/util.rs
use super::*;

static PADBUF: [u8; 12] = [0; 12];

/// C12.pad: `strip_padding` for every payload length <= 12 and every pad-length octet.
/// (content other than the first octet is irrelevant to the function: it only
/// reads payload[0]; the first octet is made symbolic through a copied buffer.)
pub fn c12_pad_strip_padding() {
    let n: usize = kani::any();
    kani::assume(n <= 12);
    let pad: u8 = kani::any();
    let mut raw = [0u8; 12];
    raw[0] = pad;
    let mut i = 1;
    while i < 12 {
        raw[i] = i as u8; // position markers
        i += 1;
    }
    let mut payload = crate::frame::verif_h::sym_bytes(raw, n);
    let r = strip_padding(&mut payload);
    match &r {
        Ok(p) => {
            let p = *p;
            assert!(n >= 1 && (pad as usize) < n, "padding >= payload accepted");
            assert!(p == pad);
            assert!(payload.len() == n - 1 - pad as usize, "stripped length");
            let mut i = 0;
            while i < payload.len() {
                assert!(payload[i] == (i + 1) as u8, "stripped payload is not bytes [1, len-pad)");
                i += 1;
            }
        }
        Err(e) => {
            assert!(n == 0 || pad as usize >= n, "legal padding rejected");
            assert!(*e == Error::TooMuchPadding);
        }
    }
    kani::cover!(r.is_ok() && pad > 0, "ok_padded");
    kani::cover!(r.is_err() && n > 0, "too_much");
    kani::cover!(true, "end");
    std::mem::forget(payload);
}
