// harness bodies for h2 src/frame/util.rs (compiled in-crate as `verif_h`, feature "verif")
