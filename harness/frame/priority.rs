// harness bodies for h2 src/frame/priority.rs (compiled in-crate as `verif_h`, feature "verif")
