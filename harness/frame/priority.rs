// harness bodies for h2 src/frame/priority.rs
use super::*;

/// C08/C09.frame[priority]: PRIORITY payloads never panic; wrong length and
/// self-dependency are errors; everything else is accepted (and later ignored).
pub fn c09_frame_priority() {
    let flags: u8 = kani::any();
    let sid: u32 = kani::any();
    kani::assume(sid <= 0x7fff_ffff);
    let bytes: [u8; 7] = kani::any();
    let n: usize = kani::any();
    kani::assume(n <= 7);
    let head = Head::new(Kind::Priority, flags, StreamId::from(sid));
    let r = Priority::load(head, &bytes[..n]);
    let dep = u32::from_be_bytes([bytes[0], bytes[1], bytes[2], bytes[3]]) & 0x7fff_ffff;
    match &r {
        Ok(_) => assert!(n == 5 && dep != sid, "bad PRIORITY accepted"),
        Err(e) => {
            assert!(n != 5 || dep == sid, "legal PRIORITY rejected");
            assert!(*e == if n != 5 { Error::InvalidPayloadLength } else { Error::InvalidDependencyId });
        }
    }
    kani::cover!(r.is_ok(), "ok");
    kani::cover!(matches!(r, Err(Error::InvalidDependencyId)), "self_dependency");
    kani::cover!(true, "end");
}
