// harness bodies for h2 src/frame/headers.rs (compiled in-crate as `verif_h`, feature "verif")
use super::*;

/// C13.len: `parse_u64` returns the mathematical value of every string of <= 19 decimal
/// digits, rejects everything else (non-digits, more than 19 octets) and never
/// overflows.  (The empty string yields 0: RFC 9110 wants 1*DIGIT; the property speaks
/// of lengths that disagree with the DATA received, so that is not asserted.)
pub fn c13_len_parse_u64() {
    let b: [u8; 21] = kani::any();
    let n: usize = kani::any();
    kani::assume(n <= 21);
    let r = parse_u64(&b[..n]);
    // reference
    let mut all_digits = true;
    let mut val: u128 = 0;
    let mut i = 0;
    while i < 21 {
        if i < n {
            if b[i] < b'0' || b[i] > b'9' {
                all_digits = false;
            } else {
                val = val * 10 + (b[i] - b'0') as u128;
            }
        }
        i += 1;
    }
    match r {
        Ok(v) => {
            assert!(all_digits && n <= 19, "parse_u64 accepted a malformed content-length");
            assert!(v as u128 == val, "parse_u64 value differs from the decimal value");
        }
        Err(_) => assert!(!all_digits || n > 19, "parse_u64 rejected a well-formed content-length"),
    }
    kani::cover!(matches!(r, Ok(v) if v > u32::MAX as u64), "large");
    kani::cover!(r.is_err() && n <= 19, "non_digit");
    kani::cover!(true, "end");
}
