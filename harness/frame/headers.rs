// harness bodies for h2 src/frame/headers.rs (compiled in-crate as `verif_h`, feature "verif")
use super::*;

/// C13.len: `parse_u64` returns the mathematical value of every string of <= 19 decimal
/// digits, rejects everything else (non-digits, more than 19 octets) and never
/// overflows.  (The empty string yields 0: RFC 9110 wants 1*DIGIT; the property speaks
/// of lengths that disagree with the DATA received, so that is not asserted.)
pub fn c13_len_parse_u64() {
    let b: [u8; 21] = kani::any();
    let n: usize = kani::any();
    kani::assume(n <= 21);
    let r = parse_u64(&b[..n]);
    // reference
    let mut all_digits = true;
    let mut val: u128 = 0;
    let mut i = 0;
    while i < 21 {
        if i < n {
            if b[i] < b'0' || b[i] > b'9' {
                all_digits = false;
            } else {
                val = val * 10 + (b[i] - b'0') as u128;
            }
        }
        i += 1;
    }
    match r {
        Ok(v) => {
            assert!(all_digits && n <= 19, "parse_u64 accepted a malformed content-length");
            assert!(v as u128 == val, "parse_u64 value differs from the decimal value");
        }
        Err(_) => assert!(!all_digits || n > 19, "parse_u64 rejected a well-formed content-length"),
    }
    kani::cover!(matches!(r, Ok(v) if v > u32::MAX as u64), "large");
    kani::cover!(r.is_err() && n <= 19, "non_digit");
    kani::cover!(true, "end");
}

/// C12.pad / C09.frame: `Headers::load` (framing part only: padding, priority, fragment
/// extraction - no HPACK) on a payload of concrete length N with symbolic flags, id and
/// bytes.  Reference: RFC 9113 §6.2 - Pad Length octet if PADDED, 5 octets of priority if
/// PRIORITY, padding must not exceed what remains (an empty fragment is legal), a stream
/// must not depend on itself, stream 0 is illegal.
fn headers_load_fixed<const N: usize>() {
    let flags: u8 = kani::any();
    let sid: u32 = kani::any();
    kani::assume(sid <= 0x7fff_ffff);
    let payload: [u8; N] = kani::any();
    let mut src = BytesMut::with_capacity(N + 8);
    src.extend_from_slice(&payload);
    let head = Head::new(Kind::Headers, flags, StreamId::from(sid));
    let r = Headers::load(head, src);
    let padded = flags & 0x8 != 0;
    let priority = flags & 0x20 != 0;
    // reference
    let mut pos = 0usize;
    let mut pad = 0usize;
    let mut want_err = sid == 0;
    if !want_err && padded {
        if N < 1 { want_err = true; } else { pad = payload[0] as usize; pos = 1; }
    }
    let mut self_dep = false;
    if !want_err && priority {
        if N < pos + 5 { want_err = true; } else {
            let dep = (((payload[pos] as u32) << 24) | ((payload[pos + 1] as u32) << 16) | ((payload[pos + 2] as u32) << 8) | (payload[pos + 3] as u32)) & 0x7fff_ffff;
            self_dep = dep == sid;
            pos += 5;
        }
    }
    if !want_err && !self_dep && pad > N - pos { want_err = true; }
    match &r {
        Ok((h, rest)) => {
            assert!(!want_err && !self_dep, "C09.frame: malformed HEADERS frame accepted");
            assert!(rest.len() == N - pos - pad, "C12.pad: header block fragment length after stripping padding/priority");
            let mut i = 0;
            while i < rest.len() {
                assert!(rest[i] == payload[pos + i], "C12.pad: fragment bytes");
                i += 1;
            }
            assert!(u32::from(h.stream_id()) == sid);
            assert!(h.is_end_stream() == (flags & 0x1 != 0) && h.is_end_headers() == (flags & 0x4 != 0));
        }
        Err(e) => {
            assert!(want_err || self_dep, "C09: well-formed HEADERS frame rejected (e.g. padded frame with an empty fragment)");
            if !want_err && self_dep {
                assert!(*e == Error::InvalidDependencyId, "self-dependency must be the stream-level error");
            }
        }
    }
    kani::cover!(r.is_ok() && padded && pad > 0 && N - pos - pad == 0, "padded_empty_fragment");
    kani::cover!(r.is_err(), "rejected");
    kani::cover!(true, "end");
    std::mem::forget(r);
}
pub fn c12_pad_headers_load_0() { headers_load_fixed::<0>() }
pub fn c12_pad_headers_load_1() { headers_load_fixed::<1>() }
pub fn c12_pad_headers_load_3() { headers_load_fixed::<3>() }
pub fn c12_pad_headers_load_6() { headers_load_fixed::<6>() }
pub fn c12_pad_headers_load_9() { headers_load_fixed::<9>() }

/// a parked CONTINUATION remainder (what `Headers::encode` returns when the block does not fit one frame)
pub(crate) fn mk_continuation(stream_id: StreamId) -> Continuation {
    Continuation { stream_id, header_block: EncodingHeaderBlock { hpack: BytesMut::new() } }
}
