// harness bodies for h2 src/frame/headers.rs (compiled in-crate as `verif_h`, feature "verif")
