// harness bodies for h2 src/frame/reset.rs (compiled in-crate as `verif_h`, feature "verif")
