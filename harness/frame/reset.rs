// harness bodies for h2 src/frame/reset.rs
use super::*;
use crate::frame::head::verif_h::ref_parse_head;

pub fn c12_rt_reset() {
    let flags: u8 = kani::any();
    let sid: u32 = kani::any();
    kani::assume(sid <= 0x7fff_ffff);
    let bytes: [u8; 6] = kani::any();
    let n: usize = kani::any();
    kani::assume(n <= 6);
    let head = Head::new(Kind::Reset, flags, StreamId::from(sid));
    let r = Reset::load(head, &bytes[..n]);
    match &r {
        Ok(p) => {
            assert!(n == 4, "RST_STREAM with length != 4 accepted");
            let code = u32::from_be_bytes([bytes[0], bytes[1], bytes[2], bytes[3]]);
            assert!(u32::from(p.reason()) == code, "error code (all 2^32 values) preserved");
            assert!(u32::from(p.stream_id()) == sid);
            let mut out = [0u8; 13];
            let mut dst = &mut out[..];
            p.encode(&mut dst);
            assert!(dst.len() == 0);
            let mut hb = [0u8; 9];
            hb.copy_from_slice(&out[..9]);
            let (l, t, f, r, s) = ref_parse_head(&hb);
            assert!(l == 4 && t == 3 && f == 0 && !r && s == sid, "RST_STREAM head on the wire");
            assert!(out[9] == bytes[0] && out[10] == bytes[1] && out[11] == bytes[2] && out[12] == bytes[3]);
            let q = Reset::load(Head::parse(&out[..9]), &out[9..]).unwrap();
            assert!(q == *p, "RST_STREAM round trip");
        }
        Err(e) => {
            assert!(n != 4, "legal RST_STREAM rejected");
            assert!(*e == Error::InvalidPayloadLength);
        }
    }
    kani::cover!(r.is_ok(), "ok");
    kani::cover!(true, "end");
}
