// harness bodies for h2 src/frame/settings.rs (compiled in-crate as `verif_h`, feature "verif")
