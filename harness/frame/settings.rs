// harness bodies for h2 src/frame/settings.rs
use super::*;
use crate::frame::head::verif_h::ref_parse_head;

/// reference validity of one (id, value) setting, RFC 9113 §6.5.2 + RFC 8441
fn ref_setting_ok(id: u16, v: u32) -> bool {
    match id {
        2 | 8 => v <= 1,
        4 => v <= 0x7fff_ffff,
        5 => v >= 16_384 && v <= 16_777_215,
        _ => true,
    }
}

/// C09.frame[settings] + C12.rt[settings]: two arbitrary settings entries (12
/// bytes), arbitrary flags/id/length <= 13.
pub fn c12_rt_settings() {
    let flags: u8 = kani::any();
    let sid: u32 = kani::any();
    kani::assume(sid <= 0x7fff_ffff);
    let bytes: [u8; 13] = kani::any();
    let n: usize = kani::any();
    kani::assume(n <= 13);
    let head = Head::new(Kind::Settings, flags, StreamId::from(sid));
    let r = Settings::load(head, &bytes[..n]);
    let ack = flags & 1 == 1;
    let id0 = u16::from_be_bytes([bytes[0], bytes[1]]);
    let v0 = u32::from_be_bytes([bytes[2], bytes[3], bytes[4], bytes[5]]);
    let id1 = u16::from_be_bytes([bytes[6], bytes[7]]);
    let v1 = u32::from_be_bytes([bytes[8], bytes[9], bytes[10], bytes[11]]);
    let entries = n / 6;
    let valid = sid == 0
        && if ack { n == 0 } else {
            n % 6 == 0 && (entries < 1 || ref_setting_ok(id0, v0)) && (entries < 2 || ref_setting_ok(id1, v1))
        };
    match &r {
        Ok(s) => {
            assert!(valid, "invalid SETTINGS accepted");
            assert!(s.is_ack() == ack);
            // last occurrence wins (RFC 9113 §6.5.3: processed in order)
            if !ack {
                let want = |id: u16| -> Option<u32> {
                    if entries >= 2 && id1 == id { Some(v1) } else if entries >= 1 && id0 == id { Some(v0) } else { None }
                };
                assert!(s.header_table_size() == want(1), "HEADER_TABLE_SIZE");
                assert!(s.is_push_enabled() == want(2).map(|v| v != 0), "ENABLE_PUSH");
                assert!(s.max_concurrent_streams() == want(3), "MAX_CONCURRENT_STREAMS");
                assert!(s.initial_window_size() == want(4), "INITIAL_WINDOW_SIZE");
                assert!(s.max_frame_size() == want(5), "MAX_FRAME_SIZE");
                assert!(s.max_header_list_size() == want(6), "MAX_HEADER_LIST_SIZE");
                assert!(s.is_extended_connect_protocol_enabled() == want(8).map(|v| v != 0), "ENABLE_CONNECT_PROTOCOL");
            }
            // serialise and parse back
            let mut dst = BytesMut::with_capacity(64);
            s.encode(&mut dst);
            let mut hb = [0u8; 9];
            hb.copy_from_slice(&dst[..9]);
            let (l, t, f, rbit, sid2) = ref_parse_head(&hb);
            assert!(t == 4 && sid2 == 0 && !rbit, "SETTINGS head on the wire");
            assert!(f == if ack { 1 } else { 0 });
            assert!(l as usize == dst.len() - 9, "SETTINGS length field");
            assert!(l % 6 == 0 && l <= 12);
            let s2 = Settings::load(Head::parse(&dst[..9]), &dst[9..]).unwrap();
            assert!(s2 == *s, "SETTINGS round trip");
            std::mem::forget(dst);
        }
        Err(_) => assert!(!valid, "legal SETTINGS rejected"),
    }
    kani::cover!(r.is_ok() && !ack && entries == 2 && id0 == id1, "ok_duplicate_id");
    kani::cover!(r.is_ok() && !ack && entries == 2 && id0 > 8, "ok_unknown_id");
    kani::cover!(r.is_err() && sid == 0 && !ack && n == 12, "bad_value");
    kani::cover!(true, "end");
}
