// harness bodies for h2 src/frame/stream_id.rs
use super::*;

/// C04.ids (arithmetic part): `next_id` keeps parity, strictly increases, never
/// exceeds 2^31-1, and reports overflow instead of wrapping - for every u31 id.
pub fn c04_ids_next_id() {
    let v: u32 = kani::any();
    kani::assume(v <= StreamId::MAX.0);
    let id = StreamId(v);
    match id.next_id() {
        Ok(n) => {
            assert!(n.0 == v + 2, "next_id != id + 2");
            assert!(n.0 <= StreamId::MAX.0, "next_id above 2^31-1");
            assert!(n.0 % 2 == v % 2, "parity changed");
            assert!(n > id);
        }
        Err(_) => assert!(v as u64 + 2 > StreamId::MAX.0 as u64, "spurious overflow"),
    }
    assert!(id.is_client_initiated() == (v != 0 && v % 2 == 1));
    assert!(id.is_server_initiated() == (v != 0 && v % 2 == 0));
    assert!(id.is_zero() == (v == 0));
    kani::cover!(id.next_id().is_err(), "overflow");
    kani::cover!(true, "end");
}

/// C08: `StreamId::parse` never panics on 4 bytes and strips the reserved bit.
pub fn c08_stream_id_parse() {
    let b: [u8; 4] = kani::any();
    let (id, flag) = StreamId::parse(&b);
    let raw = u32::from_be_bytes(b);
    assert!(id.0 == raw & 0x7fff_ffff);
    assert!(flag == (raw >> 31 == 1));
    kani::cover!(flag, "flag");
    kani::cover!(true, "end");
}
