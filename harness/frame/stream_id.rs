// harness bodies for h2 src/frame/stream_id.rs (compiled in-crate as `verif_h`, feature "verif")
