// harness bodies for h2 src/frame/ping.rs (compiled in-crate as `verif_h`, feature "verif")
