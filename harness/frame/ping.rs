// harness bodies for h2 src/frame/ping.rs
use super::*;
use crate::frame::head::verif_h::ref_parse_head;

/// C12.rt[ping] + C09.frame[ping]: load on arbitrary head/payload, then
/// encode -> reference parser -> load.
pub fn c12_rt_ping() {
    let flags: u8 = kani::any();
    let sid: u32 = kani::any();
    kani::assume(sid <= 0x7fff_ffff);
    let bytes: [u8; 10] = kani::any();
    let n: usize = kani::any();
    kani::assume(n <= 10);
    let head = Head::new(Kind::Ping, flags, StreamId::from(sid));
    let r = Ping::load(head, &bytes[..n]);
    match &r {
        Ok(p) => {
            assert!(sid == 0, "PING on a non-zero stream accepted");
            assert!(n == 8, "PING with length != 8 accepted");
            assert!(p.is_ack() == (flags & 1 == 1));
            let mut i = 0;
            while i < 8 {
                assert!(p.payload()[i] == bytes[i], "payload byte");
                i += 1;
            }
            let mut out = [0u8; 17];
            let mut dst = &mut out[..];
            p.encode(&mut dst);
            assert!(dst.len() == 0, "PING must encode to 17 bytes");
            let mut hb = [0u8; 9];
            hb.copy_from_slice(&out[..9]);
            let (l, t, f, r, s) = ref_parse_head(&hb);
            assert!(l == 8 && t == 6 && s == 0 && !r, "PING head on the wire");
            assert!(f == (flags & 1), "PING flags on the wire");
            let q = Ping::load(Head::parse(&out[..9]), &out[9..]).unwrap();
            assert!(q == *p, "PING round trip");
        }
        Err(e) => {
            assert!(sid != 0 || n != 8, "legal PING rejected");
            assert!(*e == if sid != 0 { Error::InvalidStreamId } else { Error::BadFrameSize });
        }
    }
    kani::cover!(r.is_ok(), "ok");
    kani::cover!(r.is_err(), "err");
    kani::cover!(true, "end");
}
