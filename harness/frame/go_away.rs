// harness bodies for h2 src/frame/go_away.rs
use super::*;
use crate::frame::head::verif_h::ref_parse_head;

/// C12.rt[goaway]: load on arbitrary payload bytes of length n (up to 4 bytes of debug
/// data), then encode -> reference parser -> load.
fn rt_go_away(n: usize) {
    let bytes: [u8; 12] = kani::any();
    let r = GoAway::load(&bytes[..n]);
    match &r {
        Ok(g) => {
            assert!(n >= 8, "short GOAWAY accepted");
            let last = u32::from_be_bytes([bytes[0], bytes[1], bytes[2], bytes[3]]) & 0x7fff_ffff;
            let code = u32::from_be_bytes([bytes[4], bytes[5], bytes[6], bytes[7]]);
            assert!(u32::from(g.last_stream_id()) == last, "last-stream-id");
            assert!(u32::from(g.reason()) == code, "error code");
            assert!(g.debug_data().len() == n - 8, "debug data length");
            let mut i = 0;
            while i < n - 8 {
                assert!(g.debug_data()[i] == bytes[8 + i], "debug data byte");
                i += 1;
            }
            let mut out = [0u8; 21];
            let mut dst = &mut out[..];
            g.encode(&mut dst);
            let written = 21 - dst.len();
            assert!(written == 9 + n, "GOAWAY wire length");
            let mut hb = [0u8; 9];
            hb.copy_from_slice(&out[..9]);
            let (l, t, f, r, s) = ref_parse_head(&hb);
            assert!(l as usize == n && t == 7 && f == 0 && !r && s == 0, "GOAWAY head on the wire");
            let q = GoAway::load(&out[9..9 + n]).unwrap();
            assert!(q.last_stream_id() == g.last_stream_id() && q.reason() == g.reason());
            assert!(q.debug_data().len() == g.debug_data().len());
            let mut i = 0;
            while i < n - 8 {
                assert!(q.debug_data()[i] == g.debug_data()[i], "debug data round trip");
                i += 1;
            }
            std::mem::forget(q);
        }
        Err(e) => {
            assert!(n < 8, "legal GOAWAY rejected");
            assert!(*e == Error::BadFrameSize);
        }
    }
    kani::cover!(true, "end");
    std::mem::forget(r);
}
// `GoAway::load` copies the debug data into a fresh allocation; a symbolic
// allocation size exhausts the SAT back end, so the length is concrete per query.
pub fn c12_rt_go_away_len7() { rt_go_away(7) }
pub fn c12_rt_go_away_len8() { rt_go_away(8) }
pub fn c12_rt_go_away_len9() { rt_go_away(9) }
pub fn c12_rt_go_away_len12() { rt_go_away(12) }
