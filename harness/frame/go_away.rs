// harness bodies for h2 src/frame/go_away.rs (compiled in-crate as `verif_h`, feature "verif")
