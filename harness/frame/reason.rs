// harness bodies for h2 src/frame/reason.rs (compiled in-crate as `verif_h`, feature "verif")
