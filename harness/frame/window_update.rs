// harness bodies for h2 src/frame/window_update.rs
use super::*;
use crate::frame::head::verif_h::ref_parse_head;

pub fn c12_rt_window_update() {
    let flags: u8 = kani::any();
    let sid: u32 = kani::any();
    kani::assume(sid <= 0x7fff_ffff);
    let bytes: [u8; 6] = kani::any();
    let n: usize = kani::any();
    kani::assume(n <= 6);
    let head = Head::new(Kind::WindowUpdate, flags, StreamId::from(sid));
    let r = WindowUpdate::load(head, &bytes[..n]);
    let raw = u32::from_be_bytes([bytes[0], bytes[1], bytes[2], bytes[3]]);
    match &r {
        Ok(p) => {
            assert!(n == 4, "WINDOW_UPDATE with length != 4 accepted");
            assert!(p.size_increment() == raw & 0x7fff_ffff, "increment: reserved bit must be ignored");
            assert!(p.size_increment() != 0, "zero increment accepted");
            assert!(p.size_increment() <= 0x7fff_ffff);
            assert!(u32::from(p.stream_id()) == sid);
            let mut out = [0u8; 13];
            let mut dst = &mut out[..];
            p.encode(&mut dst);
            assert!(dst.len() == 0);
            let mut hb = [0u8; 9];
            hb.copy_from_slice(&out[..9]);
            let (l, t, f, r, s) = ref_parse_head(&hb);
            assert!(l == 4 && t == 8 && f == 0 && !r && s == sid, "WINDOW_UPDATE head on the wire");
            assert!(u32::from_be_bytes([out[9], out[10], out[11], out[12]]) == p.size_increment());
            let q = WindowUpdate::load(Head::parse(&out[..9]), &out[9..]).unwrap();
            assert!(q == *p, "WINDOW_UPDATE round trip");
        }
        Err(e) => {
            assert!(n != 4 || raw & 0x7fff_ffff == 0, "legal WINDOW_UPDATE rejected");
            assert!(*e == if n != 4 { Error::BadFrameSize } else { Error::InvalidWindowUpdateValue });
        }
    }
    kani::cover!(r.is_ok() && raw >> 31 == 1, "ok_reserved_bit");
    kani::cover!(r.is_err() && n == 4, "zero_increment");
    kani::cover!(true, "end");
}
