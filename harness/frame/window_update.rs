// harness bodies for h2 src/frame/window_update.rs (compiled in-crate as `verif_h`, feature "verif")
