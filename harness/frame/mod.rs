// re-exports for h2 src/frame/mod.rs: harness entry points (`pub fn`) of the child modules.
#[allow(unused_imports)]
pub use super::head::verif_h::*;
#[allow(unused_imports)]
pub use super::data::verif_h::*;
#[allow(unused_imports)]
pub use super::headers::verif_h::*;
#[allow(unused_imports)]
pub use super::settings::verif_h::*;
#[allow(unused_imports)]
pub use super::go_away::verif_h::*;
#[allow(unused_imports)]
pub use super::ping::verif_h::*;
#[allow(unused_imports)]
pub use super::reset::verif_h::*;
#[allow(unused_imports)]
pub use super::window_update::verif_h::*;
#[allow(unused_imports)]
pub use super::priority::verif_h::*;
#[allow(unused_imports)]
pub use super::stream_id::verif_h::*;
#[allow(unused_imports)]
pub use super::util::verif_h::*;
#[allow(unused_imports)]
pub use super::reason::verif_h::*;
