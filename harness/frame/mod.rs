// re-exports for h2 src/frame/mod.rs: harness entry points (`pub fn`) of the child modules.
#[allow(unused_imports)]
pub use super::head::verif_h::*;
#[allow(unused_imports)]
pub use super::data::verif_h::*;
#[allow(unused_imports)]
pub use super::headers::verif_h::*;
#[allow(unused_imports)]
pub use super::settings::verif_h::*;
#[allow(unused_imports)]
pub use super::go_away::verif_h::*;
#[allow(unused_imports)]
pub use super::ping::verif_h::*;
#[allow(unused_imports)]
pub use super::reset::verif_h::*;
#[allow(unused_imports)]
pub use super::window_update::verif_h::*;
#[allow(unused_imports)]
pub use super::priority::verif_h::*;
#[allow(unused_imports)]
pub use super::stream_id::verif_h::*;
#[allow(unused_imports)]
pub use super::util::verif_h::*;
#[allow(unused_imports)]
pub use super::reason::verif_h::*;

/// `Bytes` of fixed capacity N with symbolic content and (possibly symbolic)
/// length n <= N, built without a symbolic-size allocation: the array is leaked
/// to a `&'static` and sliced (static vtable: slicing is pointer arithmetic).
pub(crate) fn sym_bytes<const N: usize>(arr: [u8; N], n: usize) -> bytes::Bytes {
    let s: &'static [u8; N] = Box::leak(Box::new(arr));
    bytes::Bytes::from_static(&s[..]).slice(..n)
}
