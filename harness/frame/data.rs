// harness bodies for h2 src/frame/data.rs
use super::*;

/// C08/C12.pad/C03: `Data::load` on every flags octet, id and payload <= 10 bytes;
/// `flow_controlled_len` equals the wire payload length.
pub fn c12_pad_data_load() {
    let flags: u8 = kani::any();
    let sid: u32 = kani::any();
    kani::assume(sid <= 0x7fff_ffff);
    let n: usize = kani::any();
    kani::assume(n <= 10);
    let pad: u8 = kani::any();
    let mut raw = [0u8; 10];
    raw[0] = pad;
    let mut i = 1;
    while i < 10 {
        raw[i] = i as u8;
        i += 1;
    }
    let head = Head::new(Kind::Data, flags, StreamId::from(sid));
    let r = Data::load(head, crate::frame::verif_h::sym_bytes(raw, n));
    let padded = flags & 0x8 != 0;
    match &r {
        Ok(d) => {
            assert!(sid != 0, "DATA on stream 0 accepted");
            assert!(d.flow_controlled_len() == n, "flow_controlled_len != wire payload length");
            assert!(d.is_end_stream() == (flags & 1 == 1), "END_STREAM flag");
            assert!(u32::from(d.stream_id()) == sid);
            if padded {
                assert!((pad as usize) < n, "pad >= len accepted");
                assert!(d.payload().len() == n - 1 - pad as usize);
                let mut i = 0;
                while i < d.payload().len() {
                    assert!(d.payload()[i] == (i + 1) as u8, "payload after stripping");
                    i += 1;
                }
            } else {
                assert!(d.payload().len() == n);
            }
        }
        Err(e) => {
            if sid == 0 {
                assert!(*e == Error::InvalidStreamId);
            } else {
                assert!(padded && (n == 0 || pad as usize >= n), "legal DATA rejected");
                assert!(*e == Error::TooMuchPadding);
            }
        }
    }
    kani::cover!(r.is_ok() && padded && pad > 0, "ok_padded");
    kani::cover!(matches!(r, Err(Error::TooMuchPadding)), "too_much_padding");
    kani::cover!(true, "end");
    std::mem::forget(r);
}

/// C04.zero: stream-level DATA is never constructed on stream 0 (`assert!` in `Data::new`)
/// and the head it encodes carries the id, the flags and nothing else.
pub fn c04_zero_data_head() {
    let sid: u32 = kani::any();
    kani::assume(sid >= 1 && sid <= 0x7fff_ffff);
    let mut d: Data<&'static [u8]> = Data::new(StreamId::from(sid), &[][..]);
    let eos: bool = kani::any();
    d.set_end_stream(eos);
    let h = d.head();
    assert!(h.kind() == Kind::Data);
    assert!(u32::from(h.stream_id()) == sid);
    assert!(h.flag() == if eos { 1 } else { 0 }, "DATA flags: only END_STREAM may be set");
    assert!(d.is_end_stream() == eos);
    d.set_end_stream(false);
    assert!(!d.is_end_stream() && d.head().flag() == 0);
    kani::cover!(true, "end");
}

/// Builds a received DATA frame directly (payload, END_STREAM, optional pad length as
/// recorded by `Data::load`).
pub(crate) fn mk_data(id: StreamId, payload: Bytes, eos: bool, pad_len: Option<u8>) -> Data<Bytes> {
    let mut flags = DataFlags::default();
    if eos {
        flags.set_end_stream();
    }
    if pad_len.is_some() {
        flags.0 |= PADDED;
    }
    Data { stream_id: id, data: payload, flags, pad_len }
}
