// harness bodies for h2 src/frame/data.rs (compiled in-crate as `verif_h`, feature "verif")
