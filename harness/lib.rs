// Public facade compiled as `h2::verif_harness` (feature "verif"): every `pub fn`
// of every in-crate harness module, re-exported so that the external proof crate
// (/verif/kani) can wrap it in a #[kani::proof].
pub use crate::client::verif_h::*;
pub use crate::codec::verif_h::*;
pub use crate::error::verif_h::*;
pub use crate::frame::verif_h::*;
pub use crate::hpack::verif_h::*;
pub use crate::proto::verif_h::*;
pub use crate::server::verif_h::*;
pub use crate::share::verif_h::*;
