// harness bodies for h2 src/server.rs (compiled in-crate as `verif_h`, feature "verif")
