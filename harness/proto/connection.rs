// harness bodies for h2 src/proto/connection.rs (compiled in-crate as `verif_h`, feature "verif")
