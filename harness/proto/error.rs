// harness bodies for h2 src/proto/error.rs (compiled in-crate as `verif_h`, feature "verif")
