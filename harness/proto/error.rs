// harness bodies for h2 src/proto/error.rs (compiled in-crate as `verif_h`, feature "verif")
use super::*;

/// Stub for `impl From<io::Error> for proto::Error`: keeps the error kind, drops the
/// message string (the real impl formats it with `to_string()`, i.e. the fmt
/// machinery, which is not the subject of any property).
pub(crate) fn stub_from_io_error(src: io::Error) -> Error {
    let k = src.kind();
    std::mem::forget(src);
    Error::Io(k, None)
}
