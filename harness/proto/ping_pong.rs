// harness bodies for h2 src/proto/ping_pong.rs (compiled in-crate as `verif_h`, feature "verif")
