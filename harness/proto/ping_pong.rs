// harness bodies for h2 src/proto/ping_pong.rs (compiled in-crate as `verif_h`, feature "verif")
use super::*;
use crate::codec::verif_h::{codec_buffered, codec_set_blocked, mk_codec, Mock};
use crate::proto::verif_h::{cw, SymBuf};
use std::task::Waker;

/// C14.pingack + C14.pong (state part): `recv_ping` on any payload / ACK flag, from any
/// of the three pending-ping situations, under the stated precondition that the
/// previous PONG was already buffered (`Connection::poll_ready` runs first - argued).
pub fn c14_recv_ping() {
    let mut pp = PingPong::new();
    let pending: u8 = kani::any();
    kani::assume(pending < 3);
    if pending >= 1 {
        pp.ping_shutdown();
        if pending == 2 {
            pp.pending_ping.as_mut().unwrap().sent = true;
        }
    }
    let payload: [u8; 8] = kani::any();
    let ack: bool = kani::any();
    let ping = if ack { Ping::pong(payload) } else { Ping::new(payload) };
    let r = pp.recv_ping(ping);
    if !ack {
        assert!(matches!(r, ReceivedPing::MustAck), "a PING must be acknowledged");
        assert!(pp.pending_pong == Some(payload), "PONG payload differs from the PING payload");
        assert!(pp.pending_ping.is_some() == (pending >= 1), "a PING changed the pending shutdown ping");
    } else {
        assert!(pp.pending_pong.is_none(), "an ACK must not be acknowledged");
        if pending >= 1 && payload == Ping::SHUTDOWN {
            assert!(matches!(r, ReceivedPing::Shutdown));
            assert!(pp.pending_ping.is_none());
        } else {
            assert!(matches!(r, ReceivedPing::Unknown), "an ACK that answers nothing must be ignored");
            assert!(pp.pending_ping.is_some() == (pending >= 1), "an unrelated ACK consumed the pending ping");
        }
    }
    kani::cover!(matches!(r, ReceivedPing::Shutdown), "shutdown_ack");
    kani::cover!(true, "end");
    std::mem::forget(pp);
}

/// C14.pong with the real codec: exactly one PONG with the same 8 bytes, only when the
/// codec has room; under back-pressure the slot is kept and nothing is buffered; a second
/// call buffers nothing more.
pub fn c14_send_pending_pong() {
    let mut pp = PingPong::new();
    let payload: [u8; 8] = kani::any();
    let r0 = pp.recv_ping(Ping::new(payload));
    assert!(matches!(r0, ReceivedPing::MustAck));
    let mut codec = mk_codec::<SymBuf>(Mock::new([0; crate::codec::verif_h::EXP], 0, 0));
    let blocked: bool = kani::any();
    codec_set_blocked(&mut codec, blocked);
    let waker = Waker::noop();
    let mut cx = Context::from_waker(&waker);
    let r = pp.send_pending_pong(&mut cx, &mut codec);
    if blocked {
        assert!(r.is_pending(), "PONG reported sent although the codec had no room");
        assert!(pp.pending_pong == Some(payload), "C14: owed PONG lost under back-pressure");
        assert!(codec_buffered(&codec).is_empty());
    } else {
        assert!(matches!(r, Poll::Ready(Ok(()))));
        assert!(pp.pending_pong.is_none(), "PONG slot not cleared: it would be sent twice");
        let b = codec_buffered(&codec);
        assert!(b.len() == 17, "exactly one 17-byte PING frame must be buffered");
        assert!(b[0] == 0 && b[1] == 0 && b[2] == 8 && b[3] == 6 && b[4] == 1, "PING head with ACK");
        assert!(b[5] == 0 && b[6] == 0 && b[7] == 0 && b[8] == 0, "PING on stream 0");
        let mut i = 0;
        while i < 8 {
            assert!(b[9 + i] == payload[i], "C14: PONG does not echo the PING payload");
            i += 1;
        }
        // a second call must not produce a second PONG
        let r2 = pp.send_pending_pong(&mut cx, &mut codec);
        assert!(matches!(r2, Poll::Ready(Ok(()))));
        assert!(codec_buffered(&codec).len() == 17, "C14: a second PONG was produced");
    }
    kani::cover!(blocked, "back_pressure");
    kani::cover!(!blocked, "sent");
    kani::cover!(true, "end");
    std::mem::forget(r);
    std::mem::forget(codec);
    std::mem::forget(pp);
}

/// C14.user / C07.ping: the user-ping handshake as a sequential automaton, and what
/// happens when the connection side goes away.
pub fn c14_user_ping_automaton() {
    let mut pp = PingPong::new();
    let up = pp.take_user_pings().unwrap();
    assert!(pp.take_user_pings().is_none(), "user pings handed out twice");
    // EMPTY -> PENDING_PING
    assert!(up.send_ping().is_ok());
    // a second ping while one is pending is refused without touching the state
    assert!(matches!(up.send_ping(), Err(None)), "second user ping accepted while one is in flight");
    assert!(up.0.state.load(Ordering::Acquire) == USER_STATE_PENDING_PING);
    let wk = cw::waker(2);
    let mut cx = Context::from_waker(&wk);
    assert!(up.poll_pong(&mut cx).is_pending());
    // connection writes the PING (state part of send_pending_ping)
    up.0.state.store(USER_STATE_PENDING_PONG, Ordering::Release);
    // an ACK with a foreign payload is ignored, the USER payload completes the handshake
    let other: [u8; 8] = kani::any();
    kani::assume(other != Ping::USER && other != Ping::SHUTDOWN);
    let w0 = cw::wakes(2);
    assert!(matches!(pp.recv_ping(Ping::pong(other)), ReceivedPing::Unknown));
    assert!(up.0.state.load(Ordering::Acquire) == USER_STATE_PENDING_PONG);
    assert!(matches!(pp.recv_ping(Ping::pong(Ping::USER)), ReceivedPing::Unknown));
    assert!(up.0.state.load(Ordering::Acquire) == USER_STATE_RECEIVED_PONG);
    assert!(cw::wakes(2) == w0 + 1, "C06: pong waiter not woken");
    // a duplicate ACK is ignored
    assert!(matches!(pp.recv_ping(Ping::pong(Ping::USER)), ReceivedPing::Unknown));
    assert!(matches!(up.poll_pong(&mut cx), Poll::Ready(Ok(()))));
    assert!(up.0.state.load(Ordering::Acquire) == USER_STATE_EMPTY);
    // connection goes away while a ping is in flight: everything resolves with an error
    assert!(up.send_ping().is_ok());
    assert!(up.poll_pong(&mut cx).is_pending());
    let w1 = cw::wakes(2);
    drop(pp.user_pings.take());
    assert!(cw::wakes(2) == w1 + 1, "C07.ping: pong waiter not woken when the connection ended");
    let r = up.poll_pong(&mut cx);
    assert!(matches!(&r, Poll::Ready(Err(_))), "C07.ping: poll_pong would hang after the connection ended");
    let s = up.send_ping();
    assert!(matches!(&s, Err(Some(_))), "C07.ping: send_ping accepted after the connection ended");
    kani::cover!(true, "end");
    std::mem::forget(r);
    std::mem::forget(s);
    std::mem::forget(up);
    std::mem::forget(pp);
}

/// C07.ping, from every state of the user-ping handshake: once the connection side
/// (`UserPingsRx`) is gone, the waiter is woken and no later operation on the user handle
/// hangs or is accepted - in whatever order the user calls them.
pub fn c07_user_ping_connection_gone_any_state() {
    let mut pp = PingPong::new();
    let up = pp.take_user_pings().unwrap();
    let s: usize = kani::any();
    kani::assume(s == USER_STATE_EMPTY || s == USER_STATE_PENDING_PING || s == USER_STATE_PENDING_PONG || s == USER_STATE_RECEIVED_PONG);
    up.0.state.store(s, Ordering::Release);
    let wk = cw::waker(2);
    let mut cx = Context::from_waker(&wk);
    if s != USER_STATE_RECEIVED_PONG {
        assert!(up.poll_pong(&mut cx).is_pending());
    } else {
        up.0.pong_task.register(cx.waker());
    }
    let w1 = cw::wakes(2);
    drop(pp.user_pings.take());
    assert!(cw::wakes(2) == w1 + 1, "C07.ping: pong waiter not woken when the connection ended");
    // three further user operations in any order
    let mut i = 0;
    while i < 3 {
        if kani::any() {
            let r = up.poll_pong(&mut cx);
            assert!(!r.is_pending(), "C07.ping: poll_pong hangs after the connection ended");
            std::mem::forget(r);
        } else {
            let r = up.send_ping();
            assert!(!r.is_ok(), "C07.ping: send_ping accepted on a connection that is gone (its pong can never arrive)");
            std::mem::forget(r);
        }
        i += 1;
    }
    kani::cover!(s == USER_STATE_RECEIVED_PONG, "from_received_pong");
    kani::cover!(true, "end");
    std::mem::forget(up);
    std::mem::forget(pp);
}
