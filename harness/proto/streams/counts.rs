// harness bodies for h2 src/proto/streams/counts.rs (compiled in-crate as `verif_h`, feature "verif")
