// harness bodies for h2 src/proto/streams/counts.rs
use super::*;
use crate::proto::streams::state::verif_h as st_h;
use crate::proto::streams::store::verif_h as store_h;
use crate::proto::streams::verif_h::{cfg, mk_instant};
use crate::proto::streams::store::Resolve;

pub(crate) fn set_counts(c: &mut Counts, num_send: usize, max_send: usize, num_recv: usize, max_recv: usize) {
    c.num_send_streams = num_send;
    c.max_send_streams = max_send;
    c.num_recv_streams = num_recv;
    c.max_recv_streams = max_recv;
}
pub(crate) fn get_counts(c: &Counts) -> (usize, usize) {
    (c.num_send_streams, c.num_recv_streams)
}
pub(crate) fn set_reset_counts(c: &mut Counts, num_local: usize, max_local: usize, num_remote: usize, max_remote: usize) {
    c.num_local_reset_streams = num_local;
    c.max_local_reset_streams = max_local;
    c.num_remote_reset_streams = num_remote;
    c.max_remote_reset_streams = max_remote;
}
pub(crate) fn get_reset_counts(c: &Counts) -> (usize, usize) {
    (c.num_local_reset_streams, c.num_remote_reset_streams)
}
pub(crate) fn set_error_resets(c: &mut Counts, num: usize, max: Option<usize>) {
    c.num_local_error_reset_streams = num;
    c.max_local_error_reset_streams = max;
}
pub(crate) fn get_error_resets(c: &Counts) -> usize {
    c.num_local_error_reset_streams
}
pub(crate) fn set_peer(c: &mut Counts, p: peer::Dyn) {
    c.peer = p;
}

/// C18.data: the DATA-frame budget, one step from any state.  Reference semantics
/// (documented constants: threshold 256, at most 100 empty non-final frames):
/// empty frame -> counted, the 101st is an error; small frame (0 < len < 256) costs
/// 256-len and is an error when the budget does not cover it (budget unchanged);
/// a frame >= 256 refunds len-256, capped at the maximum.  Budget stays in [0, max].
pub fn c18_data_budget_step() {
    let mut c = Counts::new(peer::Dyn::Server, &cfg());
    let max: usize = kani::any();
    let avail: usize = kani::any();
    let empties: usize = kani::any();
    kani::assume(avail <= max);
    c.data_frame_budget = Budget { available: avail, max };
    c.num_recv_empty_data_frames = empties;
    let len: usize = kani::any();
    let release: bool = kani::any();
    if release {
        c.release_data_frame(len);
        let a2 = c.data_frame_budget.available;
        if len != 0 && len < 256 {
            let want = if (avail as u128) + ((256 - len) as u128) > max as u128 { max } else { avail + (256 - len) };
            assert!(a2 == want, "release_data_frame: refund of a small frame");
        } else {
            assert!(a2 == avail, "release_data_frame must not refund empty or large frames");
        }
        assert!(c.num_recv_empty_data_frames == empties);
    } else {
        let r = c.record_data_frame(len);
        let a2 = c.data_frame_budget.available;
        if len == 0 {
            assert!(a2 == avail, "empty frames do not touch the byte budget");
            match r {
                Ok(()) => assert!(empties < 100 && c.num_recv_empty_data_frames == empties + 1),
                Err(_) => assert!(empties >= 100, "an empty DATA frame within the allowance was refused"),
            }
        } else if len < 256 {
            let cost = 256 - len;
            match r {
                Ok(()) => assert!(avail >= cost && a2 == avail - cost, "small frame: cost 256-len"),
                Err(_) => assert!(avail < cost && a2 == avail, "small frame refused although the budget covers it"),
            }
        } else {
            assert!(r.is_ok(), "large frames are never refused");
            let refund = len - 256;
            let want = if (avail as u128) + (refund as u128) > max as u128 { max } else { avail + refund };
            assert!(a2 == want, "large frame: refund len-256 capped at max");
        }
        kani::cover!(r.is_err() && len > 0, "budget_exhausted");
        kani::cover!(r.is_err() && len == 0, "too_many_empty");
    }
    assert!(c.data_frame_budget.available <= c.data_frame_budget.max, "budget above its maximum");
    assert!(c.data_frame_budget.max == max);
    kani::cover!(true, "end");
    std::mem::forget(c);
}

/// C05.limit: the peer's MAX_CONCURRENT_STREAMS takes effect exactly as sent.
pub fn c05_limit_apply_remote_settings() {
    let mut c = Counts::new(peer::Dyn::Client, &cfg());
    let num: usize = kani::any();
    let old_max: usize = kani::any();
    set_counts(&mut c, num, old_max, 0, usize::MAX);
    let mut s = frame::Settings::default();
    let has: bool = kani::any();
    let val: u32 = kani::any();
    if has {
        s.set_max_concurrent_streams(Some(val));
    }
    let initial: bool = kani::any();
    c.apply_remote_settings(&s, initial);
    let want = if has { val as usize } else if initial { usize::MAX } else { old_max };
    assert!(c.max_send_streams() == want, "max_send_streams after SETTINGS");
    assert!(get_counts(&c).0 == num, "SETTINGS changed the number of open streams");
    // lowering the limit below the open count admits nothing new and does not panic
    assert!(c.can_inc_num_send_streams() == (want > num), "admission predicate");
    kani::cover!(has && (val as usize) < num, "lowered_below_open");
    kani::cover!(!has && initial, "first_settings_without_limit");
    kani::cover!(true, "end");
    std::mem::forget(c);
}

/// C05.free / C19.release / N3: `transition_after` from an arbitrary stream record.
/// `lo..=hi` bounds the state shapes (see state.rs harness) of this query.
fn transition_after_case(lo: u8, hi: u8) {
    let mut counts = Counts::new(peer::Dyn::Client, &cfg());
    let is_server: bool = kani::any();
    set_peer(&mut counts, if is_server { peer::Dyn::Server } else { peer::Dyn::Client });
    let mut store = Store::new();
    let idv: u32 = kani::any();
    kani::assume(idv == 1 || idv == 2); // one local-, one remote-initiated id
    let id = StreamId::from(idv);
    let local_init = is_server == (idv % 2 == 0);
    let mut stream = Stream::new(id, 0, 0);
    stream.state = st_h::any_state_in(id, lo, hi);
    let key = {
        let ptr = store.insert(id, stream);
        ptr.key()
    };
    // symbolic bookkeeping flags, written in place
    let counted: bool = kani::any();
    let refs: usize = kani::any();
    kani::assume(refs <= 2);
    let f_send: bool = kani::any();
    let f_cap: bool = kani::any();
    let f_accept: bool = kani::any();
    let f_wu: bool = kani::any();
    let f_open: bool = kani::any();
    let has_reset_at: bool = kani::any();
    let queue_nonempty: bool = kani::any();
    let buffered: usize = kani::any();
    {
        let mut p = store.resolve(key);
        p.is_counted = counted;
        p.ref_count = refs;
        p.is_pending_send = f_send;
        p.is_pending_send_capacity = f_cap;
        p.is_pending_accept = f_accept;
        p.is_pending_window_update = f_wu;
        p.is_pending_open = f_open;
        if has_reset_at {
            p.reset_at = Some(mk_instant(1_000, 0));
        }
        if queue_nonempty {
            p.pending_send = crate::proto::streams::buffer::verif_h::fake_nonempty();
        }
        p.buffered_send_data = buffered;
    }
    let is_reset_counted: bool = kani::any();
    // N1 / N4 (counter invariants): a counted stream is included in its counter, a
    // stream remembered as locally reset is included in num_local_reset_streams
    let ns: usize = kani::any();
    let nr: usize = kani::any();
    let nl: usize = kani::any();
    kani::assume(!(counted && local_init) || ns >= 1);
    kani::assume(!(counted && !local_init) || nr >= 1);
    kani::assume(!is_reset_counted || nl >= 1);
    set_counts(&mut counts, ns, usize::MAX, nr, usize::MAX);
    set_reset_counts(&mut counts, nl, usize::MAX, 0, 10);

    // reference predicates, from the fields (not through h2's helpers)
    let state_closed = store[key].state.is_closed();
    let scheduled = store[key].state.is_scheduled_reset();
    let closed = state_closed && !queue_nonempty && buffered == 0;
    let released = closed && refs == 0 && !f_send && !f_cap && !f_accept && !f_wu && !f_open && !has_reset_at;

    let ptr = store.resolve(key);
    counts.transition_after(ptr, is_reset_counted);

    let (ns2, nr2) = get_counts(&counts);
    let (nl2, _) = get_reset_counts(&counts);
    let dec = closed && !scheduled && counted;
    if dec {
        if local_init {
            assert!(ns2 == ns - 1 && nr2 == nr, "closed locally-initiated stream must free exactly one send slot");
        } else {
            assert!(nr2 == nr - 1 && ns2 == ns, "closed peer-initiated stream must free exactly one recv slot");
        }
    } else {
        assert!(ns2 == ns && nr2 == nr, "slot counters changed for a stream that is not closing");
    }
    if closed && !has_reset_at {
        assert!(!store_h::ids_contains(&store, id), "closed stream still reachable by id");
        assert!(nl2 == if is_reset_counted { nl - 1 } else { nl }, "local-reset memory counter");
    } else {
        assert!(store_h::ids_contains(&store, id), "live (or remembered) stream unlinked");
        assert!(nl2 == nl);
    }
    if released {
        assert!(!store_h::slab_contains(&store, key), "released stream record still stored");
    } else {
        assert!(store_h::slab_contains(&store, key), "record of a stream that is still referenced/queued was removed");
        let s = &store[key];
        assert!(s.is_counted == (counted && !dec), "is_counted flag");
        // a second call changes nothing more (decrement happens exactly once)
        let ptr = store.resolve(key);
        counts.transition_after(ptr, false);
        assert!(get_counts(&counts) == (ns2, nr2), "second transition_after decremented again");
    }
    kani::cover!(released, "released");
    kani::cover!(dec && !released, "freed_slot_but_kept");
    kani::cover!(closed && has_reset_at, "remembered_reset");
    kani::cover!(true, "end");
    std::mem::forget(store);
    std::mem::forget(counts);
}
pub fn c05_free_transition_after_live() { transition_after_case(0, 5) }
pub fn c05_free_transition_after_closed_end() { transition_after_case(6, 6) }
pub fn c05_free_transition_after_closed_reset() { transition_after_case(7, 8) }
pub fn c05_free_transition_after_closed_sched() { transition_after_case(9, 9) }
pub fn c05_free_transition_after_closed_conn() { transition_after_case(10, 11) }

/// N2: each increment function refuses (panics) when the matching `can_inc` is false
/// and increments by exactly one otherwise; `is_counted` set exactly once.
pub fn c05_inc_guards() {
    let mut counts = Counts::new(peer::Dyn::Client, &cfg());
    let mut store = Store::new();
    let key = store_h::insert_slab_only(&mut store, Stream::new(StreamId::from(1), 0, 0));
    let ns: usize = kani::any();
    let ms: usize = kani::any();
    let nr: usize = kani::any();
    let mr: usize = kani::any();
    set_counts(&mut counts, ns, ms, nr, mr);
    let which: bool = kani::any();
    let mut ptr = store.resolve(key);
    if which {
        kani::assume(counts.can_inc_num_send_streams());
        assert!(ms > ns);
        counts.inc_num_send_streams(&mut ptr);
        assert!(get_counts(&counts) == (ns + 1, nr) && ptr.is_counted);
        assert!(ns + 1 <= ms, "send streams above the peer's limit");
    } else {
        kani::assume(counts.can_inc_num_recv_streams());
        assert!(mr > nr);
        counts.inc_num_recv_streams(&mut ptr);
        assert!(get_counts(&counts) == (ns, nr + 1) && ptr.is_counted);
        assert!(nr + 1 <= mr, "recv streams above the advertised limit");
    }
    kani::cover!(true, "end");
    std::mem::forget(store);
    std::mem::forget(counts);
}

pub(crate) fn stub_transition_after_unreachable(_c: &mut Counts, _s: store::Ptr, _r: bool) {
    panic!("UNREACHABLE-STUB Counts::transition_after")
}

pub(crate) fn set_budget(c: &mut Counts, available: usize, max: usize, empties: usize) {
    c.data_frame_budget = Budget { available, max };
    c.num_recv_empty_data_frames = empties;
}
pub(crate) fn get_budget(c: &Counts) -> (usize, usize) {
    (c.data_frame_budget.available, c.num_recv_empty_data_frames)
}
