// harness bodies for h2 src/proto/streams/streams.rs (compiled in-crate as `verif_h`, feature "verif")
use super::*;
use crate::proto::streams::counts::verif_h as counts_h;
use crate::proto::streams::flow_control::verif_h as fc_h;
use crate::proto::streams::recv::verif_h as recv_h;
use crate::proto::streams::state::verif_h as st_h;
use crate::proto::streams::store::Resolve;
use crate::proto::streams::verif_h::{cfg, SymBuf};
use crate::proto::PollReset;

static ZEROS: [u8; 16] = [0; 16];

/// The real `Inner::recv_data` (lookup by id, `counts.transition`, the DATA-frame budget,
/// the automatic release on stream errors, `reset_on_recv_stream_err`) for a small padded
/// non-final DATA frame on an open stream.  C18.data: the budget is charged by the
/// *payload* length (what stays buffered for the application), never by padding;
/// C03: connection credit for padding is back immediately.
pub fn c18_data_inner_recv_data_budget() {
    let c = cfg();
    let role = peer::Dyn::Server;
    let mut inner = Inner {
        counts: Counts::new(role, &c),
        actions: Actions { recv: Recv::new(role, &c), send: Send::new(&c), task: None, conn_error: None },
        store: Store::new(),
        refs: 1,
    };
    let send_buffer: SendBuffer<SymBuf> = SendBuffer { inner: Mutex::new(crate::proto::streams::buffer::verif_h::with_capacity(4)) };
    let id = StreamId::from(1);
    let mut stream = Stream::new(id, 0, 65_535);
    st_h::set_inner_open_streaming(&mut stream.state);
    stream.ref_count = 1;
    stream.is_counted = true;
    counts_h::set_counts(&mut inner.counts, 0, 10, 1, usize::MAX);
    let key = inner.store.insert(id, stream).key();
    let avail: usize = kani::any();
    let max: usize = kani::any();
    let empties: usize = kani::any();
    kani::assume(avail <= max && empties <= 100);
    counts_h::set_budget(&mut inner.counts, avail, max, empties);
    let len: usize = kani::any();
    kani::assume(len <= 16);
    let pad: u8 = kani::any();
    let frame = crate::frame::verif_h::mk_data(id, Bytes::from_static(&ZEROS).slice(..len), false, Some(pad));
    let sz = frame.flow_controlled_len();
    let (cw0, _) = recv_h::conn_flow(&inner.actions.recv);
    let r = inner.recv_data(role, &send_buffer, frame);
    let (a2, e2) = counts_h::get_budget(&inner.counts);
    match &r {
        Ok(()) => {
            if len == 0 {
                assert!(a2 == avail && e2 == empties + 1 && empties < 100, "empty DATA frames are counted, not charged to the byte budget");
            } else {
                assert!(avail >= 256 - len && a2 == avail - (256 - len),
                    "C18.data: a small DATA frame must cost 256 - payload length of the budget, whatever its padding");
                assert!(e2 == empties);
            }
            let (cw1, _) = recv_h::conn_flow(&inner.actions.recv);
            assert!(cw1 as i64 == cw0 as i64 - sz as i64);
        }
        Err(Error::GoAway(_, reason, _)) => {
            assert!(*reason == Reason::ENHANCE_YOUR_CALM || *reason == Reason::FLOW_CONTROL_ERROR);
            if *reason == Reason::ENHANCE_YOUR_CALM {
                assert!((len == 0 && empties >= 100) || (len > 0 && avail < 256 - len), "C18.data: tiny-DATA flood limit hit although the budget covers the frame");
            }
        }
        Err(_) => panic!("unexpected error class for DATA on an open stream"),
    }
    kani::cover!(r.is_ok() && len > 0 && pad > 200, "small_payload_big_padding");
    kani::cover!(matches!(&r, Err(Error::GoAway(_, Reason::ENHANCE_YOUR_CALM, _))), "flood_limit");
    kani::cover!(true, "end");
    let _ = key;
    std::mem::forget(r);
    std::mem::forget(send_buffer);
    std::mem::forget(inner);
}

fn mk_inner(role: peer::Dyn) -> Inner {
    let c = cfg();
    Inner {
        counts: Counts::new(role, &c),
        actions: Actions { recv: Recv::new(role, &c), send: Send::new(&c), task: None, conn_error: None },
        store: Store::new(),
        refs: 1,
    }
}

/// C15.ignore / C09.race / C17: the real `Inner::recv_reset` with a GOAWAY cut-off.
/// RST_STREAM for a stream *above* the last-stream-id we sent is ignored; for a stream at
/// or below it (a stream the application was given) it is processed: the stream closes
/// with the peer's code, its slot is freed, the id is forgotten.  Stream 0 is a
/// connection error.
pub fn c15_ignore_inner_recv_reset() { inner_recv_reset(false) }
pub fn c09_inner_recv_reset_stream_zero() { inner_recv_reset(true) }
fn inner_recv_reset(zero: bool) {
    let role = peer::Dyn::Server;
    let mut inner = mk_inner(role);
    let send_buffer: SendBuffer<SymBuf> = SendBuffer { inner: Mutex::new(crate::proto::streams::buffer::verif_h::with_capacity(4)) };
    let id = StreamId::from(1);
    let mut stream = Stream::new(id, 0, 65_535);
    st_h::set_inner_open_streaming(&mut stream.state);
    stream.ref_count = 1;
    stream.is_counted = true;
    counts_h::set_counts(&mut inner.counts, 0, 10, 1, usize::MAX);
    let key = inner.store.insert(id, stream).key();
    // we announced GOAWAY(max) earlier (MAX = no GOAWAY yet)
    let maxv: u32 = kani::any();
    kani::assume(maxv <= 0x7fff_ffff);
    recv_h::set_ids(&mut inner.actions.recv, Ok(StreamId::from(3)), StreamId::from(1), StreamId::from(maxv));
    let code: u32 = kani::any();
    let fid = if zero { StreamId::ZERO } else { id };
    let r = inner.recv_reset(&send_buffer, frame::Reset::new(fid, code.into()));
    let p = inner.store.resolve(key);
    if zero {
        assert!(matches!(&r, Err(Error::GoAway(_, Reason::PROTOCOL_ERROR, _))), "RST_STREAM on stream 0 must be a connection error");
        assert!(!p.state.is_closed());
    } else if 1 > maxv {
        assert!(r.is_ok() && !p.state.is_closed(), "C15.ignore: RST_STREAM above the GOAWAY cut-off must be ignored");
    } else {
        assert!(r.is_ok(), "legal RST_STREAM rejected");
        assert!(p.state.is_remote_reset(), "C15: RST_STREAM for a stream at or below the last-stream-id was not processed (the stream never completes, shutdown never drains)");
        let pr = p.state.ensure_reason(PollReset::Streaming);
        match &pr {
            Ok(Some(rs)) => assert!(u32::from(*rs) == code, "C17.surface: peer's reset code"),
            _ => panic!("reset not recorded"),
        }
        std::mem::forget(pr); // (dropping a `crate::Error` walks io::Error's Box<dyn Error> drop glue)
        assert!(!p.is_counted && counts_h::get_counts(&inner.counts).1 == 0, "C05.free: reset stream still holds a slot");
    }
    kani::cover!(!zero && maxv == 1, "exactly_at_cut_off");
    kani::cover!(!zero && maxv == 0, "above_cut_off");
    kani::cover!(true, "end");
    std::mem::forget(r);
    std::mem::forget(send_buffer);
    std::mem::forget(inner);
}

// ---------------------------------------------------------------------------
// C20: lock order of a handle operation, observed on the real method
// ---------------------------------------------------------------------------
pub(crate) static mut BUF_LOCKED: bool = false;
pub(crate) static mut ORDER_VIOLATION: bool = false;
pub(crate) static mut LOCKS_TAKEN: u8 = 0;

/// Stub for `std::sync::Mutex::lock`: takes the lock through `try_lock` (so the guard is
/// the real one) and records the acquisition order.  The two mutexes of the streams layer
/// guard values of different size (`Inner` vs `Buffer<Frame<B>>`), which is how the stub
/// tells them apart.  Rule (the order every other site follows, and the only one that
/// cannot deadlock against the connection task): `inner` before `send_buffer`.
pub(crate) fn stub_mutex_lock_ordered<T>(m: &std::sync::Mutex<T>) -> std::sync::LockResult<std::sync::MutexGuard<'_, T>> {
    let is_inner = std::mem::size_of::<T>() == std::mem::size_of::<Inner>();
    unsafe {
        LOCKS_TAKEN += 1;
        if is_inner {
            if BUF_LOCKED {
                ORDER_VIOLATION = true;
            }
        } else {
            BUF_LOCKED = true;
        }
    }
    match m.try_lock() {
        Ok(g) => Ok(g),
        Err(std::sync::TryLockError::Poisoned(p)) => Err(p),
        Err(std::sync::TryLockError::WouldBlock) => panic!("mutex already held in a sequential harness"),
    }
}

/// `Actions::send_reset` is not the subject of the lock-order obligation
pub(crate) fn stub_actions_send_reset_noop<B>(_a: &mut Actions, _s: store::Ptr, _r: Reason, _i: Initiator, _c: &mut Counts, _b: &mut Buffer<Frame<B>>) -> Result<(), crate::proto::error::GoAway> {
    Ok(())
}

pub fn c20_lock_order_send_reset() {
    assert!(std::mem::size_of::<Inner>() != std::mem::size_of::<Buffer<Frame<SymBuf>>>(), "harness cannot tell the two mutexes apart");
    let role = peer::Dyn::Client;
    let mut inner = mk_inner(role);
    let id = StreamId::from(1);
    let mut stream = Stream::new(id, 0, 0);
    st_h::set_inner_open_streaming(&mut stream.state);
    stream.ref_count = 1;
    let key = inner.store.insert(id, stream).key();
    let inner = Arc::new(Mutex::new(inner));
    let send_buffer: Arc<SendBuffer<SymBuf>> = Arc::new(SendBuffer { inner: Mutex::new(crate::proto::streams::buffer::verif_h::with_capacity(4)) });
    let mut sr = StreamRef { opaque: OpaqueStreamRef { inner, key }, send_buffer };
    let code: u32 = kani::any();
    sr.send_reset(code.into());
    unsafe {
        assert!(LOCKS_TAKEN == 2, "handle operation did not take both locks");
        assert!(!ORDER_VIOLATION, "C20: send_buffer locked before inner - lock-order inversion against the connection task (deadlock)");
    }
    kani::cover!(true, "end");
    std::mem::forget(sr);
}

/// C18.lerr at the connection-level entry (`Actions::send_reset`, reached through
/// `Streams::send_reset` for stream errors reported to `Connection::poll`: frames on
/// forgotten streams, malformed HEADERS...): every library-initiated reset is counted
/// against `max_local_error_reset_streams`; at the limit the answer is
/// GOAWAY(ENHANCE_YOUR_CALM) and no RST_STREAM; user-initiated resets are not counted.
pub fn c18_lerr_actions_send_reset_counted() {
    let mut inner = mk_inner(peer::Dyn::Server);
    let mut buffer: Buffer<Frame<SymBuf>> = crate::proto::streams::buffer::verif_h::with_capacity(4);
    let id = StreamId::from(1);
    let mut stream = Stream::new(id, 0, 65_535);
    st_h::set_inner_open_streaming(&mut stream.state);
    stream.ref_count = 1;
    let key = crate::proto::streams::store::verif_h::insert_slab_only(&mut inner.store, stream);
    let num: usize = kani::any();
    let max: usize = kani::any();
    let limited: bool = kani::any();
    kani::assume(num <= max);
    // without a configured limit the counter is a plain usize: 2^64 resets are not reachable
    kani::assume(limited || num < usize::MAX);
    counts_h::set_error_resets(&mut inner.counts, num, if limited { Some(max) } else { None });
    let library: bool = kani::any();
    let code: u32 = kani::any();
    unsafe { crate::proto::streams::send::verif_h::G_SEND_RESETS = 0 };
    let r = {
        let p = inner.store.resolve(key);
        inner.actions.send_reset(p, code.into(), if library { Initiator::Library } else { Initiator::User }, &mut inner.counts, &mut buffer)
    };
    let n1 = counts_h::get_error_resets(&inner.counts);
    let sent = unsafe { crate::proto::streams::send::verif_h::G_SEND_RESETS };
    match &r {
        Ok(()) => {
            assert!(sent == 1, "reset accepted but no RST_STREAM requested");
            if library && limited {
                assert!(num < max && n1 == num + 1, "C18.lerr: a library-initiated reset was not counted against max_local_error_reset_streams (the peer can force unbounded resets)");
            } else if !library {
                assert!(n1 == num, "user-initiated reset counted as a local error reset");
            }
        }
        Err(g) => {
            assert!(library && limited && num >= max, "reset within the quota refused");
            assert!(g.reason == Reason::ENHANCE_YOUR_CALM && sent == 0 && n1 == num);
        }
    }
    kani::cover!(r.is_err(), "limit_reached");
    kani::cover!(r.is_ok() && library && limited, "counted");
    kani::cover!(true, "end");
    std::mem::forget(r);
    std::mem::forget(buffer);
    std::mem::forget(inner);
}
