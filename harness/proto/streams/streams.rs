// harness bodies for h2 src/proto/streams/streams.rs (compiled in-crate as `verif_h`, feature "verif")
use super::*;
use crate::proto::streams::counts::verif_h as counts_h;
use crate::proto::streams::flow_control::verif_h as fc_h;
use crate::proto::streams::recv::verif_h as recv_h;
use crate::proto::streams::state::verif_h as st_h;
use crate::proto::streams::store::Resolve;
use crate::proto::streams::verif_h::{cfg, SymBuf};

static ZEROS: [u8; 16] = [0; 16];

/// The real `Inner::recv_data` (lookup by id, `counts.transition`, the DATA-frame budget,
/// the automatic release on stream errors, `reset_on_recv_stream_err`) for a small padded
/// non-final DATA frame on an open stream.  C18.data: the budget is charged by the
/// *payload* length (what stays buffered for the application), never by padding;
/// C03: connection credit for padding is back immediately.
pub fn c18_data_inner_recv_data_budget() {
    let c = cfg();
    let role = peer::Dyn::Server;
    let mut inner = Inner {
        counts: Counts::new(role, &c),
        actions: Actions { recv: Recv::new(role, &c), send: Send::new(&c), task: None, conn_error: None },
        store: Store::new(),
        refs: 1,
    };
    let send_buffer: SendBuffer<SymBuf> = SendBuffer { inner: Mutex::new(crate::proto::streams::buffer::verif_h::with_capacity(4)) };
    let id = StreamId::from(1);
    let mut stream = Stream::new(id, 0, 65_535);
    st_h::set_inner_open_streaming(&mut stream.state);
    stream.ref_count = 1;
    stream.is_counted = true;
    counts_h::set_counts(&mut inner.counts, 0, 10, 1, usize::MAX);
    let key = inner.store.insert(id, stream).key();
    let avail: usize = kani::any();
    let max: usize = kani::any();
    let empties: usize = kani::any();
    kani::assume(avail <= max && empties <= 100);
    counts_h::set_budget(&mut inner.counts, avail, max, empties);
    let len: usize = kani::any();
    kani::assume(len <= 16);
    let pad: u8 = kani::any();
    let frame = crate::frame::verif_h::mk_data(id, Bytes::from_static(&ZEROS).slice(..len), false, Some(pad));
    let sz = frame.flow_controlled_len();
    let (cw0, _) = recv_h::conn_flow(&inner.actions.recv);
    let r = inner.recv_data(role, &send_buffer, frame);
    let (a2, e2) = counts_h::get_budget(&inner.counts);
    match &r {
        Ok(()) => {
            if len == 0 {
                assert!(a2 == avail && e2 == empties + 1 && empties < 100, "empty DATA frames are counted, not charged to the byte budget");
            } else {
                assert!(avail >= 256 - len && a2 == avail - (256 - len),
                    "C18.data: a small DATA frame must cost 256 - payload length of the budget, whatever its padding");
                assert!(e2 == empties);
            }
            let (cw1, _) = recv_h::conn_flow(&inner.actions.recv);
            assert!(cw1 as i64 == cw0 as i64 - sz as i64);
        }
        Err(Error::GoAway(_, reason, _)) => {
            assert!(*reason == Reason::ENHANCE_YOUR_CALM || *reason == Reason::FLOW_CONTROL_ERROR);
            if *reason == Reason::ENHANCE_YOUR_CALM {
                assert!((len == 0 && empties >= 100) || (len > 0 && avail < 256 - len), "C18.data: tiny-DATA flood limit hit although the budget covers the frame");
            }
        }
        Err(_) => panic!("unexpected error class for DATA on an open stream"),
    }
    kani::cover!(r.is_ok() && len > 0 && pad > 200, "small_payload_big_padding");
    kani::cover!(matches!(&r, Err(Error::GoAway(_, Reason::ENHANCE_YOUR_CALM, _))), "flood_limit");
    kani::cover!(true, "end");
    let _ = key;
    std::mem::forget(r);
    std::mem::forget(send_buffer);
    std::mem::forget(inner);
}
