// harness bodies for h2 src/proto/streams/recv.rs (compiled in-crate as `verif_h`, feature "verif")
//
// Receive-side step harnesses (C03, C06.R4, C13.len, C18, C05.refuse, C15).
//
// World: one stream record (the target) + ghost aggregate `others_in_flight` for the
// bytes every other stream holds.  Invariants (assumed pre, asserted post):
//   R1  recv.in_flight_data = target.in_flight_recv_data + others_in_flight
//   R2  recv.flow.available + recv.in_flight_data = T   (T = target connection window <= 2^31-1)
//   R3  target.recv_flow.available + target.in_flight_recv_data = W  (W = initial window in force)
//       and target.recv_flow.window_size <= target.recv_flow.available
//   R5  conn.window + conn.in_flight <= 2^31-1 and W - stream.window <= 2^31-1: what the peer may
//       still send plus what it has sent and we still account for never exceeds the largest
//       window that can be advertised (keeps the ledger arithmetic inside i32)
//   R4  everything released (in_flight = 0) and an update is owed => queued
use super::*;
use crate::frame::verif_h::mk_data;
use crate::proto::streams::counts::verif_h as counts_h;
use crate::proto::streams::flow_control::verif_h as fc_h;
use crate::proto::streams::state::verif_h as st_h;
use crate::proto::streams::store::verif_h as store_h;
use crate::proto::streams::store::Resolve;
use crate::proto::streams::verif_h::{cfg, cw};

const MAXW: i64 = MAX_WINDOW_SIZE as i64;
pub(crate) const ID: u32 = 1;
static ZEROS: [u8; 16] = [0; 16];

pub(crate) struct RWorld {
    pub recv: Recv,
    pub counts: Counts,
    pub store: Store,
    pub key: store::Key,
    pub task: Option<Waker>,
}

#[derive(Clone, Copy)]
pub(crate) struct RPre {
    pub t: i64,
    pub cw: i32,
    pub ca: i32,
    pub others: u32,
    pub wtarget: i64,
    pub sw: i32,
    pub sa: i32,
    pub sfl: u32,
}

pub(crate) fn conn_flow(r: &Recv) -> (i32, i32) {
    fc_h::get(&r.flow)
}
pub(crate) fn set_refused(r: &mut Recv, v: Option<StreamId>) {
    r.refused = v;
}
pub(crate) fn refused(r: &Recv) -> Option<StreamId> {
    r.refused
}
pub(crate) fn set_ids(r: &mut Recv, next: Result<StreamId, StreamIdOverflow>, last_processed: StreamId, max: StreamId) {
    r.next_stream_id = next;
    r.last_processed_id = last_processed;
    r.max_stream_id = max;
}
pub(crate) fn pending_accept_empty(r: &Recv) -> bool {
    store_h::queue_is_empty(&r.pending_accept)
}
pub(crate) fn pending_window_updates_empty(r: &Recv) -> bool {
    store_h::queue_is_empty(&r.pending_window_updates)
}
pub(crate) fn buffer_len(r: &Recv) -> usize {
    crate::proto::streams::buffer::verif_h::slab_len(&r.buffer)
}

/// server-side world: stream 1 (peer-initiated), receive half in the given state shape
pub(crate) fn rworld(state_shape: u8, remote_streaming: bool) -> RWorld {
    let c = cfg();
    let mut recv = Recv::new(peer::Dyn::Server, &c);
    recv.buffer = crate::proto::streams::buffer::verif_h::with_capacity(4);
    let counts = Counts::new(peer::Dyn::Server, &c);
    let mut store = Store::new();
    let id = StreamId::from(ID);
    let mut stream = Stream::new(id, 0, 0);
    stream.state = st_h::state_of_shape(state_shape, id);
    if remote_streaming && state_shape == 3 {
        st_h::set_inner_open_streaming(&mut stream.state);
    }
    stream.ref_count = 1;
    let key = store_h::insert_slab_only(&mut store, stream);
    RWorld { recv, counts, store, key, task: None }
}

pub(crate) fn sym_rpre(w: &mut RWorld) -> RPre {
    let t: i64 = kani::any();
    let others: u32 = kani::any();
    let sfl: u32 = kani::any();
    let cwv: i32 = kani::any();
    let wt: i64 = kani::any();
    let sw: i32 = kani::any();
    kani::assume(t >= 0 && t <= MAXW && wt >= 0 && wt <= MAXW);
    kani::assume(others as i64 + sfl as i64 <= MAXW);
    // R2: available = T - in_flight (may be negative after the target was lowered)
    let infl = others as i64 + sfl as i64;
    let ca = t - infl;
    kani::assume(ca >= -MAXW);
    kani::assume(cwv >= 0 && cwv as i64 <= MAXW);
    kani::assume(cwv as i64 + infl <= MAXW); // R5
    // R3
    let sa = wt - sfl as i64;
    kani::assume(sa >= -MAXW);
    kani::assume(sw as i64 <= sa && sw as i64 >= -MAXW);
    kani::assume(wt - sw as i64 <= MAXW); // R5
    fc_h::set(&mut w.recv.flow, cwv, ca as i32);
    w.recv.in_flight_data = (others + sfl) as WindowSize;
    w.recv.init_window_sz = wt as WindowSize;
    let mut p = w.store.resolve(w.key);
    fc_h::set(&mut p.recv_flow, sw, sa as i32);
    p.in_flight_recv_data = sfl;
    RPre { t, cw: cwv, ca: ca as i32, others, wtarget: wt, sw, sa: sa as i32, sfl }
}

pub(crate) struct RPost {
    pub cw: i32,
    pub ca: i32,
    pub infl: u32,
    pub sw: i32,
    pub sa: i32,
    pub sfl: u32,
}
pub(crate) fn rpost(w: &mut RWorld) -> RPost {
    let (cwv, ca) = conn_flow(&w.recv);
    let infl = w.recv.in_flight_data;
    let p = w.store.resolve(w.key);
    let (sw, sa) = fc_h::get(&p.recv_flow);
    RPost { cw: cwv, ca, infl, sw, sa, sfl: p.in_flight_recv_data }
}
pub(crate) fn assert_rinv(pre: &RPre, q: &RPost) {
    assert!(q.infl as i64 == q.sfl as i64 + pre.others as i64, "R1: connection in-flight != sum of stream in-flight");
    assert!(q.ca as i64 + q.infl as i64 == pre.t, "R2: connection credit leaked or invented (available + in_flight != target)");
    assert!(q.sa as i64 + q.sfl as i64 == pre.wtarget, "R3: stream credit leaked or invented (available + in_flight != initial window)");
    assert!(q.sw <= q.sa, "R3: stream window above what was made available");
    assert!(q.cw as i64 <= MAXW && q.sw as i64 <= MAXW, "advertised window above 2^31-1");
    assert!(q.cw as i64 + q.infl as i64 <= MAXW, "R5: connection window + in-flight above 2^31-1");
    assert!(pre.wtarget - q.sw as i64 <= MAXW, "R5: stream window too far below the initial window");
}
/// R4 for the target stream
pub(crate) fn assert_r4(w: &mut RWorld) {
    let p = w.store.resolve(w.key);
    if p.state.is_recv_streaming() && p.is_recv && p.in_flight_recv_data == 0 && p.recv_flow.unclaimed_capacity().is_some() {
        assert!(p.is_pending_window_update, "R4: stream owes a WINDOW_UPDATE (everything released) but is not queued - the peer stalls");
    }
}
fn rforget(w: RWorld) {
    std::mem::forget(w);
}

// ---------------------------------------------------------------------------
// recv_data, normal / padded / handle-dropped / window-violation paths
// ---------------------------------------------------------------------------
fn step_recv_data(is_recv: bool, padded: bool) {
    let mut w = rworld(3, true);
    let pre = sym_rpre(&mut w);
    {
        let mut p = w.store.resolve(w.key);
        p.is_recv = is_recv;
    }
    let len: usize = kani::any();
    kani::assume(len <= 16);
    let pad: u8 = kani::any();
    let eos: bool = kani::any();
    let frame = mk_data(StreamId::from(ID), Bytes::from_static(&ZEROS).slice(..len), eos, if padded { Some(pad) } else { None });
    let sz = frame.flow_controlled_len();
    assert!(sz == len + if padded { pad as usize + 1 } else { 0 });
    let r = {
        let mut p = w.store.resolve(w.key);
        w.recv.recv_data(frame, &mut p)
    };
    // the 4-line glue of `Inner::recv_data`'s closure: a stream error after the frame
    // was charged releases the connection-level credit automatically
    if let Err(Error::Reset(..)) = &r {
        w.recv.release_connection_capacity(sz as WindowSize, &mut None);
    }
    let q = rpost(&mut w);
    match &r {
        Ok(()) => {
            assert!((sz as i64) <= pre.cw as i64, "C09.flow: DATA beyond the connection window accepted");
            assert!((sz as i64) <= (if pre.sw > 0 { pre.sw as i64 } else { 0 }), "C09.flow: DATA beyond the stream window accepted");
            assert!(q.cw as i64 == pre.cw as i64 - sz as i64, "connection window not charged the flow-controlled length");
            if is_recv {
                assert!(q.sw as i64 == pre.sw as i64 - sz as i64, "stream window not charged the flow-controlled length");
                let padding = (sz - len) as u32;
                assert!(q.sfl == pre.sfl + len as u32, "in-flight: only the payload stays with the application (padding auto-released)");
                assert!(q.sa as i64 == pre.sa as i64 - sz as i64 + padding as i64);
                assert_rinv(&pre, &q);
                // delivered exactly when there is something to deliver
                let p = w.store.resolve(w.key);
                assert!(p.pending_recv.is_empty() == (len == 0 && !eos), "event queued iff payload non-empty or END_STREAM");
            } else {
                // handle dropped: connection credit comes straight back, stream untouched
                assert!(q.infl == pre.others + pre.sfl && q.ca as i64 + q.infl as i64 == pre.t, "R2 on the dropped-handle path");
                assert!(q.sfl == pre.sfl && q.sa == pre.sa);
            }
        }
        Err(Error::Reset(_, reason, Initiator::Library)) => {
            assert!(*reason == Reason::FLOW_CONTROL_ERROR, "only a stream-window violation is possible here");
            assert!((sz as i64) > (if pre.sw > 0 { pre.sw as i64 } else { 0 }), "legal DATA rejected with a stream error");
            // credit is back immediately, nothing delivered
            assert!(q.infl == pre.others + pre.sfl && q.ca == pre.ca, "C03: credit of discarded DATA not returned");
            assert!(q.sfl == pre.sfl && q.sa == pre.sa && q.sw == pre.sw);
        }
        Err(Error::GoAway(_, reason, Initiator::Library)) => {
            assert!(*reason == Reason::FLOW_CONTROL_ERROR);
            assert!((sz as i64) > pre.cw as i64, "legal DATA rejected with a connection error");
        }
        Err(_) => panic!("unexpected error class"),
    }
    kani::cover!(r.is_ok() && padded && pad > 0, "ok_padded");
    kani::cover!(matches!(&r, Err(Error::Reset(..))), "stream_window_violation");
    kani::cover!(matches!(&r, Err(Error::GoAway(..))), "conn_window_violation");
    kani::cover!(true, "end");
    std::mem::forget(r);
    rforget(w);
}
pub fn c03_data_normal() { step_recv_data(true, false) }
pub fn c03_data_padded() { step_recv_data(true, true) }
pub fn c03_data_handle_dropped() { step_recv_data(false, true) }

/// DATA on a locally reset stream / ignore_data: charged to the connection window
/// and credited back at once; nothing delivered.
pub fn c03_ignore_locally_reset() {
    let mut w = rworld(7, false);
    // make the reset local (Library): frames are ignored "for some time"
    {
        let mut p = w.store.resolve(w.key);
        p.state.set_reset(StreamId::from(ID), Reason::CANCEL, Initiator::Library);
    }
    let pre = sym_rpre(&mut w);
    let len: usize = kani::any();
    kani::assume(len <= 16);
    let frame = mk_data(StreamId::from(ID), Bytes::from_static(&ZEROS).slice(..len), kani::any(), None);
    let r = {
        let mut p = w.store.resolve(w.key);
        w.recv.recv_data(frame, &mut p)
    };
    let q = rpost(&mut w);
    match &r {
        Ok(()) => {
            assert!((len as i64) <= pre.cw as i64);
            assert!(q.cw as i64 == pre.cw as i64 - len as i64, "ignored DATA must still be charged to the connection window");
            assert!(q.infl == pre.others + pre.sfl && q.ca == pre.ca, "C03.ignore: credit of ignored DATA not returned");
            assert!(q.sw == pre.sw && q.sa == pre.sa && q.sfl == pre.sfl, "ignored DATA touched the stream ledger");
            let p = w.store.resolve(w.key);
            assert!(p.pending_recv.is_empty(), "DATA on a reset stream was delivered");
        }
        Err(Error::GoAway(_, reason, _)) => {
            assert!(*reason == Reason::FLOW_CONTROL_ERROR && (len as i64) > pre.cw as i64);
        }
        Err(_) => panic!("DATA on a locally reset stream must be tolerated (race)"),
    }
    kani::cover!(r.is_ok() && len > 0, "ignored");
    kani::cover!(true, "end");
    std::mem::forget(r);
    rforget(w);
}

// ---------------------------------------------------------------------------
// release_capacity / release_connection_capacity
// ---------------------------------------------------------------------------
pub fn c03_release_capacity() {
    let mut w = rworld(3, true);
    let pre = sym_rpre(&mut w);
    let with_task: bool = kani::any();
    if with_task {
        w.task = Some(cw::waker(1));
    }
    let wakes0 = cw::wakes(1);
    let n: u32 = kani::any();
    let r = {
        let mut p = w.store.resolve(w.key);
        w.recv.release_capacity(n, &mut p, &mut w.task)
    };
    let q = rpost(&mut w);
    match r {
        Ok(()) => {
            assert!(n <= pre.sfl, "released more than the application holds");
            assert!(q.sfl == pre.sfl - n && q.infl == pre.others + pre.sfl - n);
            assert!(q.cw == pre.cw && q.sw == pre.sw, "release must not move the advertised windows (only WINDOW_UPDATE does)");
            assert_rinv(&pre, &q);
            assert_r4(&mut w);
            // C06.Q3: an owed update (stream or connection) wakes the connection task
            let p = w.store.resolve(w.key);
            let owed = p.recv_flow.unclaimed_capacity().is_some() || w.recv.flow.unclaimed_capacity().is_some();
            if owed && with_task {
                assert!(cw::wakes(1) == wakes0 + 1 && w.task.is_none(), "C06: WINDOW_UPDATE owed but the connection task was not woken");
            }
        }
        Err(_) => {
            assert!(n > pre.sfl, "legal release refused");
            assert!(q.sfl == pre.sfl && q.infl == pre.others + pre.sfl && q.ca == pre.ca && q.sa == pre.sa, "state changed on Err");
        }
    }
    kani::cover!(r.is_ok() && q.sfl == 0, "all_released");
    kani::cover!(r.is_err(), "too_big");
    kani::cover!(true, "end");
    rforget(w);
}

/// C03.update (fallback form, see DESIGN): what `send_connection_window_update` /
/// `send_stream_window_updates` do besides buffering the frame is
/// `incr = unclaimed_capacity(); inc_window(incr)`.  For every R2/R3 state that
/// leaves the window equal to `available`, never above the configured target.
pub fn c03_update_never_over_credits() {
    let mut w = rworld(3, true);
    let pre = sym_rpre(&mut w);
    // connection level
    let (cwv, ca) = conn_flow(&w.recv);
    if let Some(incr) = w.recv.flow.unclaimed_capacity() {
        assert!(incr >= 1 && incr as i64 <= MAXW, "increment outside 1..=2^31-1");
        assert!(incr as i64 == ca as i64 - cwv as i64);
        w.recv.flow.inc_window(incr).expect("unexpected flow control state");
        let (cw2, ca2) = conn_flow(&w.recv);
        assert!(cw2 == ca2 && (cw2 as i64) <= pre.t, "C03: connection window advertised above the configured target");
        assert!(w.recv.flow.unclaimed_capacity().is_none(), "update would be sent twice");
    }
    // stream level
    let mut p = w.store.resolve(w.key);
    if let Some(incr) = p.recv_flow.unclaimed_capacity() {
        assert!(incr >= 1 && incr as i64 <= MAXW);
        p.recv_flow.inc_window(incr).expect("unexpected flow control state");
        let (sw2, sa2) = fc_h::get(&p.recv_flow);
        assert!(sw2 == sa2 && (sw2 as i64) <= pre.wtarget, "C03: stream window advertised above the configured initial window");
        assert!(p.recv_flow.unclaimed_capacity().is_none());
    }
    kani::cover!(true, "end");
    rforget(w);
}

// ---------------------------------------------------------------------------
// local reconfiguration
// ---------------------------------------------------------------------------
pub fn c03_reconf_target_window() {
    let mut w = rworld(3, true);
    let pre = sym_rpre(&mut w);
    let with_task: bool = kani::any();
    if with_task {
        w.task = Some(cw::waker(1));
    }
    let wakes0 = cw::wakes(1);
    let target: u32 = kani::any();
    kani::assume(target as i64 <= MAXW);
    let r = w.recv.set_target_connection_window(target, &mut w.task);
    let q = rpost(&mut w);
    match r {
        Ok(()) => {
            assert!(q.ca as i64 + q.infl as i64 == target as i64, "R2 with the new target");
            assert!(q.cw == pre.cw && q.infl == pre.others + pre.sfl);
            if w.recv.flow.unclaimed_capacity().is_some() && with_task {
                assert!(cw::wakes(1) == wakes0 + 1, "C06: raised target owes an update but the connection was not woken");
            }
        }
        Err(_) => {
            // only representable-range failures
            assert!((pre.ca as i64 + (target as i64 - pre.t)) < i32::MIN as i64 || (pre.ca as i64 + (target as i64 - pre.t)) > i32::MAX as i64
                || pre.ca as i64 + (pre.others as i64 + pre.sfl as i64) > i32::MAX as i64, "legal target refused");
        }
    }
    kani::cover!(r.is_ok() && (target as i64) < pre.t, "lowered");
    kani::cover!(r.is_ok() && (target as i64) > pre.t, "raised");
    kani::cover!(true, "end");
    rforget(w);
}

/// apply_local_settings on one stream (ids map filled through the shim): R3 with the
/// new initial window; and R4 - the expected finding lives here (lowering the window).
fn reconf_local_settings(lower: bool) {
    let c = cfg();
    let mut recv = Recv::new(peer::Dyn::Server, &c);
    let counts = Counts::new(peer::Dyn::Server, &c);
    let mut store = Store::new();
    let id = StreamId::from(ID);
    let mut stream = Stream::new(id, 0, 0);
    stream.state = st_h::state_of_shape(3, id);
    st_h::set_inner_open_streaming(&mut stream.state);
    stream.ref_count = 1;
    let key = store.insert(id, stream).key();
    let mut w = RWorld { recv, counts, store, key, task: None };
    let pre = sym_rpre(&mut w);
    // R4 holds before (in particular: nothing owed-and-unqueued)
    {
        let p = w.store.resolve(w.key);
        kani::assume(!(p.in_flight_recv_data == 0 && p.recv_flow.unclaimed_capacity().is_some()));
    }
    let new: u32 = kani::any();
    kani::assume(new as i64 <= MAXW);
    if lower {
        kani::assume((new as i64) < pre.wtarget);
    } else {
        kani::assume((new as i64) > pre.wtarget);
    }
    let mut s = frame::Settings::default();
    s.set_initial_window_size(Some(new));
    let r = w.recv.apply_local_settings(&s, &mut w.store);
    let q = rpost(&mut w);
    match &r {
        Ok(()) => {
            assert!(w.recv.init_window_sz() == new);
            assert!(q.sa as i64 + q.sfl as i64 == new as i64, "R3 with the new initial window");
            assert!(q.sw as i64 - pre.sw as i64 == new as i64 - pre.wtarget, "stream window must move by exactly new - old");
            assert!(q.sw <= q.sa);
            assert!(q.ca == pre.ca && q.cw == pre.cw && q.infl == pre.others + pre.sfl, "connection ledger touched");
            assert_r4(&mut w);
        }
        Err(e) => {
            assert!(matches!(e, Error::GoAway(_, Reason::FLOW_CONTROL_ERROR, Initiator::Library)));
            // only when the shifted values are not representable
            let d = new as i64 - pre.wtarget;
            assert!(pre.sw as i64 + d < i32::MIN as i64 || pre.sw as i64 + d > MAXW || pre.sa as i64 + d > i32::MAX as i64 || pre.sa as i64 + d < i32::MIN as i64,
                "representable window change refused");
        }
    }
    kani::cover!(r.is_ok(), "applied");
    kani::cover!(true, "end");
    std::mem::forget(r);
    rforget(w);
}
pub fn c03_reconf_local_settings_raise() { reconf_local_settings(false) }
pub fn c03_reconf_local_settings_lower() { reconf_local_settings(true) }

// ---------------------------------------------------------------------------
// C03.update with the real Codec: the WINDOW_UPDATE frames themselves
// ---------------------------------------------------------------------------
use crate::codec::verif_h::{codec_buffered, codec_set_blocked, mk_codec, Mock, EXP};
use crate::proto::streams::verif_h::SymBuf;

fn be32(b: &[u8]) -> u32 {
    ((b[0] as u32) << 24) | ((b[1] as u32) << 16) | ((b[2] as u32) << 8) | (b[3] as u32)
}

/// connection-level WINDOW_UPDATE: emitted iff owed, increment = available - window,
/// brings the advertised window to `available` (<= target), once; kept under back-pressure.
pub fn c03_update_connection_frame() {
    let mut w = rworld(3, true);
    let pre = sym_rpre(&mut w);
    let mut codec = mk_codec::<Prioritized<SymBuf>>(Mock::new([0; EXP], 0, 0));
    let blocked: bool = kani::any();
    codec_set_blocked(&mut codec, blocked);
    let owed = w.recv.flow.unclaimed_capacity();
    let r = w.recv.send_connection_window_update(&mut codec);
    let (cw2, ca2) = conn_flow(&w.recv);
    match r {
        Ok(BufferStatus::Complete) => {
            match owed {
                Some(incr) => {
                    assert!(!blocked, "WINDOW_UPDATE buffered into a full codec");
                    let b = codec_buffered(&codec);
                    assert!(b.len() == 13 && b[2] == 4 && b[3] == 8 && b[4] == 0, "one WINDOW_UPDATE frame");
                    assert!(be32(&b[5..9]) == 0, "connection WINDOW_UPDATE must be on stream 0");
                    assert!(be32(&b[9..13]) == incr && incr >= 1 && incr as i64 <= MAXW, "increment on the wire");
                    assert!(cw2 as i64 == pre.cw as i64 + incr as i64 && cw2 == ca2, "ledger != what was put on the wire");
                    assert!((cw2 as i64) <= pre.t, "C03: connection window advertised above the configured target");
                    // second call: nothing more
                    let r2 = w.recv.send_connection_window_update(&mut codec);
                    assert!(matches!(r2, Ok(BufferStatus::Complete)) && codec_buffered(&codec).len() == 13, "WINDOW_UPDATE sent twice");
                }
                None => {
                    assert!(codec_buffered(&codec).is_empty() && cw2 == pre.cw, "WINDOW_UPDATE below the threshold");
                }
            }
        }
        Ok(BufferStatus::CodecFull) => {
            assert!(blocked && owed.is_some());
            assert!(cw2 == pre.cw && ca2 == pre.ca && codec_buffered(&codec).is_empty(), "C06: owed update must survive back-pressure unchanged");
        }
        Err(_) => panic!("no I/O happened"),
    }
    kani::cover!(owed.is_some() && !blocked, "sent");
    kani::cover!(owed.is_some() && blocked, "deferred");
    kani::cover!(true, "end");
    std::mem::forget(codec);
    rforget(w);
}

/// stream-level WINDOW_UPDATE for the queued target stream
pub fn c03_update_stream_frame() {
    let mut w = rworld(3, true);
    let pre = sym_rpre(&mut w);
    {
        let mut p = w.store.resolve(w.key);
        w.recv.pending_window_updates.push(&mut p);
    }
    let mut codec = mk_codec::<Prioritized<SymBuf>>(Mock::new([0; EXP], 0, 0));
    let owed = {
        let p = w.store.resolve(w.key);
        p.recv_flow.unclaimed_capacity()
    };
    let r = w.recv.send_stream_window_updates(&mut w.store, &mut w.counts, &mut codec);
    let q = rpost(&mut w);
    assert!(matches!(r, Ok(BufferStatus::Complete)));
    match owed {
        Some(incr) => {
            let b = codec_buffered(&codec);
            assert!(b.len() == 13 && b[2] == 4 && b[3] == 8 && b[4] == 0, "one WINDOW_UPDATE frame");
            assert!(be32(&b[5..9]) == ID, "stream WINDOW_UPDATE on the wrong stream");
            assert!(be32(&b[9..13]) == incr && incr >= 1 && incr as i64 <= MAXW);
            assert!(q.sw as i64 == pre.sw as i64 + incr as i64 && q.sw == q.sa);
            assert!((q.sw as i64) <= pre.wtarget, "C03: stream window advertised above the configured initial window");
        }
        None => assert!(codec_buffered(&codec).is_empty() && q.sw == pre.sw),
    }
    assert_rinv(&pre, &q);
    let p = w.store.resolve(w.key);
    assert!(!p.is_pending_window_update);
    kani::cover!(owed.is_some(), "sent");
    kani::cover!(true, "end");
    std::mem::forget(codec);
    rforget(w);
}

// ---------------------------------------------------------------------------
// C05.refuse / C08: opening peer-initiated streams against the advertised limit
// ---------------------------------------------------------------------------
/// `Recv::open` for every id / next-id / limit: refused streams create nothing and the
/// next expected id still advances; ids must not go backwards; parity per role.
pub fn c05_refuse_open() {
    let c = cfg();
    let is_server: bool = kani::any();
    let role = if is_server { peer::Dyn::Server } else { peer::Dyn::Client };
    let mut recv = Recv::new(role, &c);
    let mut counts = Counts::new(role, &c);
    let num: usize = kani::any();
    let max: usize = kani::any();
    counts_h::set_counts(&mut counts, 0, 10, num, max);
    let next: u32 = kani::any();
    kani::assume(next >= 1 && next <= 0x7fff_ffff && (next % 2 == 1) == is_server);
    let overflowed: bool = kani::any();
    set_ids(&mut recv, if overflowed { Err(StreamIdOverflow) } else { Ok(StreamId::from(next)) }, StreamId::ZERO, StreamId::MAX);
    let idv: u32 = kani::any();
    kani::assume(idv <= 0x7fff_ffff);
    let id = StreamId::from(idv);
    let push: bool = kani::any();
    let r = recv.open(id, if push { Open::PushPromise } else { Open::Headers }, &mut counts);
    let legal_initiator = idv != 0 && if is_server { !push && idv % 2 == 1 } else { push && idv % 2 == 0 };
    match &r {
        Ok(res) => {
            assert!(legal_initiator, "C09.idle: stream opened by the wrong kind of frame / wrong id parity");
            assert!(!overflowed && idv >= next, "C09.idle: stream id went backwards (or ids exhausted) but was accepted");
            // the next expected id advanced past this one
            match recv.next_stream_id {
                Ok(n) => assert!(u32::from(n) == idv + 2),
                Err(_) => assert!(idv as u64 + 2 > 0x7fff_ffff),
            }
            match res {
                Some(got) => {
                    assert!(*got == id && num < max, "C05: stream admitted beyond the advertised limit");
                    assert!(refused(&recv).is_none());
                }
                None => {
                    assert!(num >= max, "stream refused although a slot was free");
                    assert!(refused(&recv) == Some(id), "refused stream not recorded for REFUSED_STREAM");
                }
            }
            assert!(counts_h::get_counts(&counts) == (0, num), "open must not count the stream yet");
        }
        Err(e) => {
            assert!(!legal_initiator || overflowed || idv < next, "legal new stream rejected");
            assert!(matches!(e, Error::GoAway(_, Reason::PROTOCOL_ERROR, Initiator::Library)), "must be a connection error PROTOCOL_ERROR");
            assert!(refused(&recv).is_none());
        }
    }
    kani::cover!(matches!(&r, Ok(None)), "refused");
    kani::cover!(matches!(&r, Ok(Some(_))), "admitted");
    kani::cover!(true, "end");
    std::mem::forget(r);
    std::mem::forget(recv);
    std::mem::forget(counts);
}

/// HEADERS that activate a peer-initiated stream: the server's request stream (just
/// admitted by `open`, so a slot is free) and the client's *pushed* stream (reserved
/// earlier: slots may have filled up in between).  No input may panic, and the number of
/// active peer-initiated streams never exceeds the advertised limit.
fn recv_headers_activation(pushed: bool) {
    let c = cfg();
    let role = if pushed { peer::Dyn::Client } else { peer::Dyn::Server };
    let mut recv = Recv::new(role, &c);
    recv.buffer = crate::proto::streams::buffer::verif_h::with_capacity(4);
    let mut counts = Counts::new(role, &c);
    let mut store = Store::new();
    let idv: u32 = if pushed { 2 } else { 1 };
    let id = StreamId::from(idv);
    let mut stream = Stream::new(id, 0, 0);
    stream.state = st_h::state_of_shape(if pushed { 2 } else { 0 }, id);
    stream.ref_count = 1;
    let key = store_h::insert_slab_only(&mut store, stream);
    let num: usize = kani::any();
    let max: usize = kani::any();
    if !pushed {
        // `Recv::open` ran in the same critical section and found a free slot
        kani::assume(num < max);
    }
    counts_h::set_counts(&mut counts, 0, 10, num, max);
    let eos: bool = kani::any();
    let pseudo = if pushed {
        frame::Pseudo::response(http::StatusCode::OK)
    } else {
        let mut p = frame::Pseudo::default();
        p.method = Some(http::Method::GET);
        p.scheme = Some(crate::hpack::BytesStr::from_static("https"));
        p.path = Some(crate::hpack::BytesStr::from_static("/"));
        p
    };
    let mut h = frame::Headers::new(id, pseudo, HeaderMap::new());
    if eos {
        h.set_end_stream();
    }
    let r = {
        let mut p = store.resolve(key);
        recv.recv_headers(h, &mut p, &mut counts)
    };
    let (_, nr) = counts_h::get_counts(&counts);
    let p = store.resolve(key);
    if r.is_ok() {
        assert!(p.is_counted && nr == num + 1, "activated stream must be counted exactly once");
        assert!(nr <= max, "C05: more active peer-initiated streams than advertised");
        assert!(!p.pending_recv.is_empty(), "message head not queued for the application");
        assert!(u32::from(recv.last_processed_id()) >= idv, "C15.lpid: last_processed_id below a stream handed to the application");
        assert!(p.is_pending_accept == !pushed);
    }
    kani::cover!(r.is_ok(), "accepted");
    kani::cover!(r.is_err(), "rejected");
    kani::cover!(true, "end");
    std::mem::forget(r);
    std::mem::forget(store);
    std::mem::forget(recv);
    std::mem::forget(counts);
}
pub fn c05_recv_headers_request() { recv_headers_activation(false) }
pub fn c05_recv_headers_pushed_response() { recv_headers_activation(true) }

/// C13.trl: trailers.  Reference (RFC 9113 §8.1): pseudo-header fields must not appear in
/// a trailer section (malformed); a trailer section ends the stream; a body shorter than
/// its content-length is an error, not a clean end.
pub fn c13_trl_recv_trailers() {
    let mut w = rworld(3, true);
    let has_status: bool = kani::any();
    let has_method: bool = kani::any();
    let mut pseudo = frame::Pseudo::default();
    if has_status {
        pseudo.status = Some(http::StatusCode::OK);
    }
    if has_method {
        pseudo.method = Some(http::Method::GET);
    }
    let mut h = frame::Headers::new(StreamId::from(ID), pseudo, HeaderMap::new());
    h.set_end_stream();
    let declared: bool = kani::any();
    let remaining: u64 = kani::any();
    {
        let mut p = w.store.resolve(w.key);
        if declared {
            p.content_length = stream::ContentLength::Remaining(remaining);
        }
    }
    let r = {
        let mut p = w.store.resolve(w.key);
        w.recv.recv_trailers(h, &mut p)
    };
    let p = w.store.resolve(w.key);
    match &r {
        Ok(()) => {
            assert!(!(declared && remaining != 0), "C13.len: trailers accepted although the body is shorter than content-length");
            assert!(!(has_status || has_method), "C13.trl R-no-pseudo-in-trailers: trailers carrying pseudo-header fields delivered");
            assert!(p.state.is_recv_end_stream(), "trailers must end the receive half");
            assert!(!p.pending_recv.is_empty());
        }
        Err(e) => {
            assert!((declared && remaining != 0) || has_status || has_method, "well-formed trailers rejected");
            assert!(matches!(e, Error::Reset(_, Reason::PROTOCOL_ERROR, Initiator::Library)), "malformed trailers are a stream error PROTOCOL_ERROR");
            assert!(p.pending_recv.is_empty(), "malformed trailers were queued for the application");
        }
    }
    kani::cover!(r.is_ok(), "delivered");
    kani::cover!(r.is_err(), "rejected");
    kani::cover!(true, "end");
    std::mem::forget(r);
    rforget(w);
}

// ---------------------------------------------------------------------------
// C07.resolve / C01: polls on an ended stream never hang and never report a clean end
// after a reset that cut the message short
// ---------------------------------------------------------------------------
/// shape 6 EndStream, 7 Error(Reset), 8 ErrorAfterEndStream, 9 ScheduledLibraryReset,
/// 10 Error(GoAway), 11 Error(Io); receive queue empty.
fn resolve_polls(shape: u8, which: u8) {
    let mut w = rworld(shape, false);
    let wk = cw::waker(0);
    let cx = Context::from_waker(&wk);
    let complete = shape == 6 || shape == 8; // the peer's END_STREAM had been received
    let mut p = w.store.resolve(w.key);
    if which == 0 {
        let r = w.recv.poll_data(&cx, &mut p);
        match &r {
            Poll::Pending => panic!("C07.resolve: poll_data would hang on an ended stream"),
            Poll::Ready(None) => assert!(complete, "C01: clean end of body reported on a stream that was cut short"),
            Poll::Ready(Some(Err(_))) => assert!(!complete, "a complete message must end cleanly"),
            Poll::Ready(Some(Ok(_))) => panic!("data from an empty queue"),
        }
        std::mem::forget(r);
    } else if which == 1 {
        let r = w.recv.poll_trailers(&cx, &mut p);
        match &r {
            Poll::Pending => panic!("C07.resolve: poll_trailers would hang on an ended stream"),
            Poll::Ready(None) => assert!(complete, "C01: clean end reported on a stream that was cut short"),
            Poll::Ready(Some(Err(_))) => assert!(!complete),
            Poll::Ready(Some(Ok(_))) => panic!("trailers from an empty queue"),
        }
        std::mem::forget(r);
    } else if which == 2 {
        let r = w.recv.poll_response(&cx, &mut p);
        match &r {
            Poll::Pending => panic!("C07.resolve: the response future would hang on an ended stream"),
            Poll::Ready(Ok(_)) => panic!("response from an empty queue"),
            Poll::Ready(Err(_)) => {}
        }
        std::mem::forget(r);
    } else {
        let r = w.recv.poll_pushed(&cx, &mut p);
        match &r {
            Poll::Pending => panic!("C07.resolve: poll_pushed would hang on an ended stream"),
            Poll::Ready(None) => assert!(complete),
            Poll::Ready(Some(Err(_))) => assert!(!complete),
            Poll::Ready(Some(Ok(_))) => panic!("pushed request from nowhere"),
        }
        std::mem::forget(r);
    }
    kani::cover!(true, "end");
    rforget(w);
}
pub fn c07_resolve_data_end() { resolve_polls(6, 0) }
pub fn c07_resolve_data_reset() { resolve_polls(7, 0) }
pub fn c07_resolve_data_reset_after_end() { resolve_polls(8, 0) }
pub fn c07_resolve_data_scheduled() { resolve_polls(9, 0) }
pub fn c07_resolve_data_goaway() { resolve_polls(10, 0) }
pub fn c07_resolve_data_io() { resolve_polls(11, 0) }
pub fn c07_resolve_trailers_reset() { resolve_polls(7, 1) }
pub fn c07_resolve_trailers_io() { resolve_polls(11, 1) }
pub fn c07_resolve_response_reset() { resolve_polls(7, 2) }
pub fn c07_resolve_response_goaway() { resolve_polls(10, 2) }
pub fn c07_resolve_response_io() { resolve_polls(11, 2) }
pub fn c07_resolve_response_end() { resolve_polls(6, 2) }
pub fn c07_resolve_pushed_goaway() { resolve_polls(10, 3) }

/// live stream, empty queue: Pending, and the waker is stored (C06.recv)
pub fn c06_recv_poll_data_registers_waker() {
    let mut w = rworld(3, true);
    let wk = cw::waker(0);
    let cx = Context::from_waker(&wk);
    let mut p = w.store.resolve(w.key);
    let r = w.recv.poll_data(&cx, &mut p);
    assert!(r.is_pending());
    let w0 = cw::wakes(0);
    p.notify_recv();
    assert!(cw::wakes(0) == w0 + 1, "C06.recv: poll_data returned Pending without storing the waker");
    kani::cover!(true, "end");
    std::mem::forget(r);
    rforget(w);
}

// ---------------------------------------------------------------------------
// C18 quotas and C06.recv notifications: recv_reset, reset expiration, refusals
// ---------------------------------------------------------------------------
/// RST_STREAM from the peer on any live/closed stream: pending-accept quota, counters,
/// all three wakers fire (C06.recv), state carries the code (C17.surface).
pub fn c18_rreset_recv_reset() {
    let mut w = rworld(3, false); // Open{local, remote} symbolic
    let pending_accept: bool = kani::any();
    let num: usize = kani::any();
    let max: usize = kani::any();
    kani::assume(num <= max); // N4
    counts_h::set_reset_counts(&mut w.counts, 0, 10, num, max);
    let code: u32 = kani::any();
    let w0 = (cw::wakes(0), cw::wakes(1), cw::wakes(2));
    let r = {
        let mut p = w.store.resolve(w.key);
        p.is_pending_accept = pending_accept;
        let wk0 = cw::waker(0);
        let c0 = Context::from_waker(&wk0);
        p.wait_send(&c0);
        p.recv_task = Some(cw::waker(1));
        p.push_task = Some(cw::waker(2));
        w.recv.recv_reset(frame::Reset::new(StreamId::from(ID), code.into()), &mut p, &mut w.counts)
    };
    let (_, nr) = counts_h::get_reset_counts(&w.counts);
    let p = w.store.resolve(w.key);
    match &r {
        Ok(()) => {
            assert!(p.state.is_remote_reset(), "stream not closed by the peer's RST_STREAM");
            if pending_accept {
                assert!(num < max && nr == num + 1, "C18.rreset: un-accepted reset stream not counted / counted beyond its quota");
            } else {
                assert!(nr == num);
            }
            assert!(nr <= max, "C18.rreset: more remembered remote resets than configured");
            assert!(cw::wakes(0) == w0.0 + 1 && cw::wakes(1) == w0.1 + 1 && cw::wakes(2) == w0.2 + 1, "C06.recv: a waiter was not woken by the reset");
        }
        Err(e) => {
            assert!(pending_accept && num >= max, "reset within the quota rejected");
            assert!(matches!(e, Error::GoAway(_, Reason::ENHANCE_YOUR_CALM, Initiator::Library)), "quota overflow must be ENHANCE_YOUR_CALM");
            assert!(nr == num);
        }
    }
    kani::cover!(r.is_err(), "quota_exceeded");
    kani::cover!(r.is_ok() && pending_accept, "counted");
    kani::cover!(true, "end");
    std::mem::forget(r);
    rforget(w);
}

/// Locally reset streams are remembered only within `local_reset_max`.
pub fn c18_lreset_enqueue_reset_expiration() {
    let mut w = rworld(7, false);
    let local: bool = kani::any();
    {
        let mut p = w.store.resolve(w.key);
        p.state.set_reset(StreamId::from(ID), Reason::CANCEL, if local { Initiator::Library } else { Initiator::Remote });
    }
    let num: usize = kani::any();
    let max: usize = kani::any();
    kani::assume(num <= max);
    counts_h::set_reset_counts(&mut w.counts, num, max, 0, 10);
    {
        let mut p = w.store.resolve(w.key);
        w.recv.enqueue_reset_expiration(&mut p, &mut w.counts);
    }
    let (nl, _) = counts_h::get_reset_counts(&w.counts);
    let p = w.store.resolve(w.key);
    if local && num < max {
        assert!(p.reset_at.is_some() && nl == num + 1, "locally reset stream not remembered although the quota allows it");
        // second call: not counted twice
        let mut p = w.store.resolve(w.key);
        w.recv.enqueue_reset_expiration(&mut p, &mut w.counts);
        assert!(counts_h::get_reset_counts(&w.counts).0 == num + 1, "reset memory counted twice for one stream");
    } else {
        assert!(p.reset_at.is_none() && nl == num, "C18.lreset: stream remembered beyond local_reset_max (or a peer reset remembered)");
    }
    assert!(counts_h::get_reset_counts(&w.counts).0 <= max, "C18.lreset: more remembered local resets than configured");
    kani::cover!(local && num < max, "remembered");
    kani::cover!(local && num >= max, "over_quota");
    kani::cover!(true, "end");
    rforget(w);
}

/// C05/C14/C18: the single REFUSED_STREAM slot is written exactly once and survives back-pressure.
fn pending_refusal(blocked: bool) {
    let c = cfg();
    let mut recv = Recv::new(peer::Dyn::Server, &c);
    let idv: u32 = kani::any();
    kani::assume(idv >= 1 && idv <= 0x7fff_ffff);
    set_refused(&mut recv, Some(StreamId::from(idv)));
    let mut codec = mk_codec::<Prioritized<SymBuf>>(Mock::new([0; EXP], 0, 0));
    codec_set_blocked(&mut codec, blocked);
    let r = recv.send_pending_refusal(&mut codec);
    if blocked {
        assert!(matches!(r, Ok(BufferStatus::CodecFull)) && refused(&recv) == Some(StreamId::from(idv)), "owed REFUSED_STREAM lost under back-pressure");
        assert!(codec_buffered(&codec).is_empty());
    } else {
        assert!(matches!(r, Ok(BufferStatus::Complete)) && refused(&recv).is_none());
        let b = codec_buffered(&codec);
        assert!(b.len() == 13 && b[2] == 4 && b[3] == 3 && b[4] == 0, "one RST_STREAM frame");
        assert!(be32(&b[5..9]) == idv && be32(&b[9..13]) == 7, "RST_STREAM(REFUSED_STREAM) for the refused id");
    }
    kani::cover!(true, "end");
    std::mem::forget(codec);
    std::mem::forget(recv);
}
pub fn c05_refusal_sent() { pending_refusal(false) }
pub fn c05_refusal_blocked() { pending_refusal(true) }

/// C07.mark (per stream): when the connection ends (`handle_error`, `recv_eof`) every
/// task parked on the stream - send side (capacity, poll_ready of a pending-open
/// request, poll_reset), receive side, push side - is woken, whatever state the stream
/// is in (a request reset while it waited for a slot is already `Closed`, but
/// `SendRequest::poll_ready` still waits on its send task).
fn mark_wakes_all(lo: u8, hi: u8, eof: bool) {
    let mut w = rworld(3, false);
    {
        let mut p = w.store.resolve(w.key);
        p.state = st_h::any_state_in(StreamId::from(ID), lo, hi);
        let wk0 = cw::waker(0);
        let c0 = Context::from_waker(&wk0);
        p.wait_send(&c0);
        p.recv_task = Some(cw::waker(1));
        p.push_task = Some(cw::waker(2));
    }
    let w0 = (cw::wakes(0), cw::wakes(1), cw::wakes(2));
    let was_closed = {
        let p = w.store.resolve(w.key);
        p.state.is_closed()
    };
    {
        let mut p = w.store.resolve(w.key);
        if eof {
            w.recv.recv_eof(&mut p);
        } else {
            let err = Error::library_go_away(Reason::PROTOCOL_ERROR);
            w.recv.handle_error(&err, &mut p);
            std::mem::forget(err);
        }
    }
    let p = w.store.resolve(w.key);
    assert!(p.state.is_closed(), "stream still open after the connection ended");
    assert!(cw::wakes(0) == w0.0 + 1, "C07: send-side waiter (capacity / poll_ready / poll_reset) not woken when the connection ended");
    assert!(cw::wakes(1) == w0.1 + 1, "C07: receive-side waiter not woken when the connection ended");
    assert!(cw::wakes(2) == w0.2 + 1, "C07: push waiter not woken when the connection ended");
    kani::cover!(was_closed, "already_closed");
    kani::cover!(true, "end");
    rforget(w);
}
pub fn c07_mark_error_live() { mark_wakes_all(0, 5, false) }
pub fn c07_mark_error_closed() { mark_wakes_all(6, 11, false) }
pub fn c07_mark_eof_live() { mark_wakes_all(0, 5, true) }
pub fn c07_mark_eof_closed() { mark_wakes_all(6, 11, true) }

/// C13.len at the message head: HEADERS with END_STREAM and a non-zero content-length is
/// malformed (RFC 9113 §8.1.1) - for requests as well as responses, except 204/304
/// responses; content-length 0 and HEAD responses are fine.
fn headers_eos_content_length(is_request: bool) {
    let c = cfg();
    let role = if is_request { peer::Dyn::Server } else { peer::Dyn::Client };
    let mut recv = Recv::new(role, &c);
    recv.buffer = crate::proto::streams::buffer::verif_h::with_capacity(4);
    let mut counts = Counts::new(role, &c);
    let mut store = Store::new();
    let id = StreamId::from(ID);
    let mut stream = Stream::new(id, 0, 0);
    // server: new stream (Idle); client: own request sent, awaiting the response
    stream.state = st_h::state_of_shape(if is_request { 0 } else { 4 }, id);
    stream.ref_count = 1;
    if !is_request {
        stream.is_counted = true;
    }
    let key = store_h::insert_slab_only(&mut store, stream);
    let eos: bool = kani::any();
    let zero: bool = kani::any();
    let status_sel: u8 = kani::any();
    kani::assume(status_sel < 3);
    let status = match status_sel { 0 => http::StatusCode::OK, 1 => http::StatusCode::NO_CONTENT, _ => http::StatusCode::NOT_MODIFIED };
    let pseudo = if is_request {
        let mut p = frame::Pseudo::default();
        p.method = Some(http::Method::POST);
        p.scheme = Some(crate::hpack::BytesStr::from_static("https"));
        p.path = Some(crate::hpack::BytesStr::from_static("/"));
        p
    } else {
        frame::Pseudo::response(status)
    };
    let mut fields = HeaderMap::new();
    fields.insert(http::header::CONTENT_LENGTH, http::HeaderValue::from_static(if zero { "0" } else { "5" }));
    let mut h = frame::Headers::new(id, pseudo, fields);
    if eos {
        h.set_end_stream();
    }
    let r = {
        let mut p = store.resolve(key);
        recv.recv_headers(h, &mut p, &mut counts)
    };
    let exempt = !is_request && status_sel != 0;
    let malformed = eos && !zero && !exempt;
    let p = store.resolve(key);
    if malformed {
        assert!(r.is_err(), "C13.len: message head with END_STREAM and a non-zero content-length delivered as a valid message");
        assert!(p.pending_recv.is_empty(), "malformed message head queued for the application");
    }
    kani::cover!(malformed, "malformed");
    kani::cover!(r.is_ok() && eos, "accepted_with_eos");
    kani::cover!(true, "end");
    std::mem::forget(r);
    std::mem::forget(store);
    std::mem::forget(recv);
    std::mem::forget(counts);
}
pub fn c13_len_headers_eos_request() { headers_eos_content_length(true) }
pub fn c13_len_headers_eos_response() { headers_eos_content_length(false) }

/// C19.release through the window-update queue: a stream that has closed, lost its last
/// handle and was only kept alive by its place in `pending_window_updates` must be
/// released (record removed) when the connection drains that queue - nothing else will
/// ever look at it again.
pub fn c19_release_via_window_update_queue() {
    let c = cfg();
    let mut recv = Recv::new(peer::Dyn::Client, &c);
    let mut counts = Counts::new(peer::Dyn::Client, &c);
    let mut store = Store::new();
    let id = StreamId::from(ID);
    let mut stream = Stream::new(id, 0, 0);
    stream.state = st_h::state_of_shape(6, id); // Closed(EndStream)
    stream.ref_count = 0;
    stream.is_pending_window_update = true;
    // released credit above the threshold, as left by release_capacity before the handle was dropped
    fc_h::set(&mut stream.recv_flow, 100, 60_000);
    let key = store_h::insert_slab_only(&mut store, stream); // already unlinked from the id map
    store_h::queue_set_single(&mut recv.pending_window_updates, key);
    let mut codec = mk_codec::<Prioritized<SymBuf>>(Mock::new([0; EXP], 0, 0));
    let r = recv.send_stream_window_updates(&mut store, &mut counts, &mut codec);
    assert!(matches!(r, Ok(BufferStatus::Complete)));
    assert!(codec_buffered(&codec).is_empty(), "WINDOW_UPDATE sent for a stream that no longer receives");
    assert!(pending_window_updates_empty(&recv));
    assert!(!store_h::slab_contains(&store, key) && store_h::slab_len(&store) == 0,
        "C19: closed, unreferenced stream popped from its last queue but never released (leaked for the life of the connection)");
    kani::cover!(true, "end");
    std::mem::forget(codec);
    std::mem::forget(store);
    std::mem::forget(recv);
    std::mem::forget(counts);
}

/// C03/C06: draining `pending_window_updates` while the codec has no room must leave the
/// stream queued - it still owes its WINDOW_UPDATE and nothing else would re-queue it.
pub fn c03_update_stream_codec_full_keeps_queue() {
    let mut w = rworld(3, true);
    let _pre = sym_rpre(&mut w);
    {
        let mut p = w.store.resolve(w.key);
        p.is_pending_window_update = true;
    }
    store_h::queue_set_single(&mut w.recv.pending_window_updates, w.key);
    let mut codec = mk_codec::<Prioritized<SymBuf>>(Mock::new([0; EXP], 0, 0));
    codec_set_blocked(&mut codec, true);
    let r = w.recv.send_stream_window_updates(&mut w.store, &mut w.counts, &mut codec);
    assert!(matches!(r, Ok(BufferStatus::CodecFull)), "a full codec must report CodecFull");
    assert!(codec_buffered(&codec).is_empty());
    let p = w.store.resolve(w.key);
    assert!(p.is_pending_window_update && !pending_window_updates_empty(&w.recv),
        "C03/C06: stream taken out of pending_window_updates although its WINDOW_UPDATE could not be written - the owed credit is lost");
    kani::cover!(true, "end");
    std::mem::forget(codec);
    rforget(w);
}

/// C08 (accept-queue assert): `Streams::next_incoming` does
/// `assert!(num_remote_reset_streams > 0)` for every popped stream that `is_remote_reset()`.
/// That is safe only if the counter never falls below the number of un-accepted streams whose
/// state is a remote reset (invariant N5).  Step: RST_STREAM from the peer on a stream that is
/// *already closed* for any cause, with or without frames still queued (a queued frame - e.g.
/// the library's own unflushed RST_STREAM - lets the peer's reset overwrite the closed state).
pub fn c08_rreset_on_closed_keeps_accept_count() {
    let mut w = rworld(7, false);
    let pending_accept: bool = kani::any();
    let queued: bool = kani::any();
    let num: usize = kani::any();
    let max: usize = kani::any();
    kani::assume(num <= max);
    counts_h::set_reset_counts(&mut w.counts, 0, 10, num, max);
    let code: u32 = kani::any();
    let (r, ind_pre) = {
        let mut p = w.store.resolve(w.key);
        let st = st_h::any_state_in(StreamId::from(ID), 6, 11);
        std::mem::forget(std::mem::replace(&mut p.state, st));
        p.is_pending_accept = pending_accept;
        p.is_pending_send = queued;
        let ind_pre = (pending_accept && p.state.is_remote_reset()) as usize;
        // N5 on the pre-state (the other un-accepted reset streams are the rest of `num`)
        kani::assume(num >= ind_pre);
        (w.recv.recv_reset(frame::Reset::new(StreamId::from(ID), code.into()), &mut p, &mut w.counts), ind_pre)
    };
    let (_, nr) = counts_h::get_reset_counts(&w.counts);
    let p = w.store.resolve(w.key);
    if r.is_ok() {
        let ind_post = (pending_accept && p.state.is_remote_reset()) as usize;
        assert!(nr as u128 + ind_pre as u128 >= num as u128 + ind_post as u128,
            "C08/N5: an un-accepted stream became remote-reset without being counted - accept() hits assert!(num_remote_reset_streams > 0)");
        assert!(nr <= max, "C18.rreset: more remembered remote resets than configured");
        assert!(p.state.is_closed());
    } else {
        assert!(pending_accept && num >= max && nr == num);
    }
    kani::cover!(r.is_ok() && pending_accept && queued && ind_pre == 0, "overwrites_closed_state");
    kani::cover!(true, "end");
    std::mem::forget(r);
    rforget(w);
}

/// C19.forget (receive buffer): when the last handle of a stream goes away
/// (`release_closed_capacity`), the stream's buffered events are cleared - whether or not the
/// stream still holds in-flight receive credit - and that credit goes back to the connection
/// exactly once (R1/R2).  `Recv::clear_recv_buffer` itself is a ghost here (its loop drops
/// `Event` values: HeaderMap / PollMessage drop glue does not finish symbolic execution in
/// 15 min); the obligation is that it is *called*, once, on every path.
pub(crate) static mut G_CLEARED: u32 = 0;
pub(crate) fn stub_clear_recv_buffer_record(_r: &mut Recv, _s: &mut Stream, _t: &mut Option<Waker>, _c: &mut Counts) {
    unsafe { G_CLEARED += 1 };
}
fn release_closed_clears(zero_in_flight: bool) {
    let mut w = rworld(7, false);
    let pre = sym_rpre(&mut w);
    if zero_in_flight {
        kani::assume(pre.sfl == 0);
    } else {
        kani::assume(pre.sfl > 0);
    }
    unsafe { G_CLEARED = 0 };
    {
        let mut p = w.store.resolve(w.key);
        p.ref_count = 0;
        w.recv.release_closed_capacity(&mut p, &mut w.task, &mut w.counts);
    }
    let q = rpost(&mut w);
    assert!(unsafe { G_CLEARED } == 1,
        "C19: the buffered events of a forgotten stream are not cleared (they stay in the connection's receive buffer for its lifetime)");
    assert!(q.sfl == 0 && q.infl == pre.others, "R1: in-flight credit of the forgotten stream not returned");
    assert!(q.ca as i64 + q.infl as i64 == pre.t, "R2: connection credit leaked or invented");
    kani::cover!(true, "end");
    rforget(w);
}
pub fn c19_release_closed_clears_buffer_no_in_flight() { release_closed_clears(true) }
pub fn c19_release_closed_clears_buffer_in_flight() { release_closed_clears(false) }
