// harness bodies for h2 src/proto/streams/state.rs (compiled in-crate as `verif_h`, feature "verif")
