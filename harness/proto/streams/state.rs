// harness bodies for h2 src/proto/streams/state.rs (compiled in-crate as `verif_h`, feature "verif")
//
// Oracle: RFC 9113 §5.1 as two half-stream automata.  A stream is a pair
// (send half, receive half), each in {Unopened, Open, Closed}; HEADERS opens the
// half it travels on (or closes it with END_STREAM), END_STREAM closes it,
// RST_STREAM / connection errors close both.  The mapping from h2's `State` to the
// pair is `halves()`; every transition function is compared with the reference
// transition on the pair, and must leave the *other* half untouched.
use super::*;
use http::HeaderMap;

pub(crate) const H_UNOPENED: u8 = 0;
pub(crate) const H_OPEN: u8 = 1;
pub(crate) const H_CLOSED: u8 = 2;

fn half(p: Peer) -> u8 {
    match p {
        AwaitingHeaders => H_UNOPENED,
        Streaming => H_OPEN,
    }
}

/// (send half, recv half)
pub(crate) fn halves(s: &State) -> (u8, u8) {
    match s.inner {
        Idle => (H_UNOPENED, H_UNOPENED),
        ReservedLocal => (H_UNOPENED, H_CLOSED),
        ReservedRemote => (H_CLOSED, H_UNOPENED),
        Open { local, remote } => (half(local), half(remote)),
        HalfClosedLocal(r) => (H_CLOSED, half(r)),
        HalfClosedRemote(l) => (half(l), H_CLOSED),
        Closed(_) => (H_CLOSED, H_CLOSED),
    }
}

/// shape index of the state (0..=11), see `state_of_shape`
pub(crate) fn shape(s: &State) -> u8 {
    match s.inner {
        Idle => 0,
        ReservedLocal => 1,
        ReservedRemote => 2,
        Open { .. } => 3,
        HalfClosedLocal(_) => 4,
        HalfClosedRemote(_) => 5,
        Closed(Cause::EndStream) => 6,
        Closed(Cause::Error(Error::Reset(..))) => 7,
        Closed(Cause::ErrorAfterEndStream(_)) => 8,
        Closed(Cause::ScheduledLibraryReset(_)) => 9,
        Closed(Cause::Error(Error::GoAway(..))) => 10,
        Closed(Cause::Error(Error::Io(..))) => 11,
    }
}

pub(crate) fn any_peer() -> Peer {
    if kani::any() { AwaitingHeaders } else { Streaming }
}
pub(crate) fn any_initiator() -> Initiator {
    let k: u8 = kani::any();
    match k % 3 {
        0 => Initiator::User,
        1 => Initiator::Library,
        _ => Initiator::Remote,
    }
}

/// The state of shape `k` (0..=11) with every payload symbolic.  `k` may be concrete
/// (one query per shape) or symbolic.
pub(crate) fn state_of_shape(k: u8, id: StreamId) -> State {
    let reason: u32 = kani::any();
    let inner = match k {
        0 => Idle,
        1 => ReservedLocal,
        2 => ReservedRemote,
        3 => Open { local: any_peer(), remote: any_peer() },
        4 => HalfClosedLocal(any_peer()),
        5 => HalfClosedRemote(any_peer()),
        6 => Closed(Cause::EndStream),
        7 => Closed(Cause::Error(Error::Reset(id, reason.into(), any_initiator()))),
        8 => Closed(Cause::ErrorAfterEndStream(Error::Reset(id, reason.into(), any_initiator()))),
        9 => Closed(Cause::ScheduledLibraryReset(reason.into())),
        10 => Closed(Cause::Error(Error::GoAway(bytes::Bytes::new(), reason.into(), any_initiator()))),
        _ => Closed(Cause::Error(Error::Io(std::io::ErrorKind::BrokenPipe, None))),
    };
    State { inner }
}
pub(crate) fn any_state(id: StreamId) -> State {
    let k: u8 = kani::any();
    kani::assume(k <= 11);
    state_of_shape(k, id)
}
pub(crate) fn any_state_in(id: StreamId, lo: u8, hi: u8) -> State {
    if lo == hi {
        return state_of_shape(lo, id);
    }
    let k: u8 = kani::any();
    kani::assume(k >= lo && k <= hi);
    state_of_shape(k, id)
}
/// live (non-closed) shapes only
pub(crate) fn any_live_state(id: StreamId) -> State {
    let k: u8 = kani::any();
    kani::assume(k <= 5);
    state_of_shape(k, id)
}

pub(crate) fn set_inner_open_streaming(s: &mut State) {
    s.inner = Open { local: Streaming, remote: Streaming };
}

fn same_cause_kind(a: &State, b: &State) -> bool {
    shape(a) == shape(b)
}

/// C04.state.send_open: sending HEADERS.
pub fn c04_state_send_open() {
    let id = StreamId::from(1);
    let mut st = any_state(id);
    let before = st.clone();
    let (s0, r0) = halves(&st);
    let was_closed = st.is_closed();
    let eos: bool = kani::any();
    let r = st.send_open(eos);
    let r = &r;
    let (s1, r1) = halves(&st);
    // reference: legal iff the send half is unopened and the stream is not closed;
    // an Open{local: AwaitingHeaders} or HalfClosedRemote(AwaitingHeaders) or ReservedLocal
    // or Idle stream - exactly the states with an unopened send half.
    let legal = s0 == H_UNOPENED && !was_closed;
    match r {
        Ok(()) => {
            assert!(legal, "HEADERS sent on a stream whose send half is already open or closed");
            assert!(s1 == if eos { H_CLOSED } else { H_OPEN }, "send half after HEADERS");
            assert!(r1 == r0, "sending HEADERS changed the receive half");
            assert!(eos || st.is_send_streaming());
            assert!(!eos || st.is_send_closed());
        }
        Err(e) => {
            assert!(!legal, "legal HEADERS refused");
            assert!(matches!(e, UserError::UnexpectedFrameType));
            assert!(shape(&st) == shape(&before) && (s1, r1) == (s0, r0), "state changed on Err");
        }
    }
    kani::cover!(r.is_ok() && eos && st.is_closed(), "closed_by_headers_eos");
    kani::cover!(r.is_err() && !was_closed, "refused_live");
    kani::cover!(true, "end");
    std::mem::forget(st);
    std::mem::forget(before);
}

/// C09.state.recv_open: receiving HEADERS (initial or informational).
pub fn c09_state_recv_open() {
    let id = StreamId::from(1);
    let mut st = any_state(id);
    let sh0 = shape(&st);
    let (s0, r0) = halves(&st);
    let eos: bool = kani::any();
    let informational: bool = kani::any();
    let pseudo = if informational {
        frame::Pseudo::response(http::StatusCode::CONTINUE)
    } else {
        frame::Pseudo::default()
    };
    let mut h = frame::Headers::new(id, pseudo, HeaderMap::new());
    if eos {
        h.set_end_stream();
    }
    assert!(h.is_informational() == informational);
    let r = st.recv_open(&h);
    let (s1, r1) = halves(&st);
    let legal = r0 == H_UNOPENED && sh0 <= 5;
    match &r {
        Ok(initial) => {
            assert!(legal, "HEADERS accepted on a stream whose receive half is open or closed");
            let want = if eos { H_CLOSED } else if informational { H_UNOPENED } else { H_OPEN };
            assert!(r1 == want, "receive half after HEADERS");
            assert!(s1 == s0, "receiving HEADERS changed the send half");
            assert!(*initial == (sh0 == 0 || sh0 == 2), "`initial` flag");
        }
        Err(e) => {
            assert!(!legal, "legal HEADERS rejected");
            assert!(matches!(e, Error::GoAway(_, Reason::PROTOCOL_ERROR, Initiator::Library)),
                "illegal HEADERS must be a connection error PROTOCOL_ERROR");
            assert!(shape(&st) == sh0 && (s1, r1) == (s0, r0), "state advanced on an illegal frame");
        }
    }
    kani::cover!(r.is_ok() && informational && !eos, "informational");
    kani::cover!(r.is_err() && sh0 <= 5, "illegal_on_live");
    kani::cover!(true, "end");
    std::mem::forget(r);
    std::mem::forget(h);
    std::mem::forget(st);
}

/// C09.state.recv_close: END_STREAM received.
pub fn c09_state_recv_close() {
    let id = StreamId::from(1);
    let mut st = any_state(id);
    let sh0 = shape(&st);
    let (s0, r0) = halves(&st);
    let r = st.recv_close();
    let (s1, r1) = halves(&st);
    let legal = sh0 == 3 || sh0 == 4;
    match &r {
        Ok(()) => {
            assert!(legal, "END_STREAM accepted in a state without an open receive half");
            assert!(r1 == H_CLOSED && s1 == s0, "END_STREAM must close exactly the receive half");
            assert!(st.is_recv_end_stream());
        }
        Err(e) => {
            assert!(!legal);
            assert!(matches!(e, Error::GoAway(_, Reason::PROTOCOL_ERROR, Initiator::Library)));
            assert!(shape(&st) == sh0 && (s1, r1) == (s0, r0), "state advanced on an illegal END_STREAM");
        }
    }
    kani::cover!(r.is_ok() && st.is_closed(), "closed");
    kani::cover!(r.is_err(), "err");
    kani::cover!(true, "end");
    std::mem::forget(r);
    std::mem::forget(st);
}

/// C04/C09: reserve_local / reserve_remote only from idle.
pub fn c09_state_reserve() {
    let id = StreamId::from(2);
    let mut st = any_state(id);
    let sh0 = shape(&st);
    if kani::any() {
        let r = st.reserve_remote();
        match &r {
            Ok(()) => assert!(sh0 == 0 && shape(&st) == 2),
            Err(e) => {
                assert!(sh0 != 0 && shape(&st) == sh0);
                assert!(matches!(e, Error::GoAway(_, Reason::PROTOCOL_ERROR, Initiator::Library)));
            }
        }
        std::mem::forget(r);
    } else {
        let r = st.reserve_local();
        match r {
            Ok(()) => assert!(sh0 == 0 && shape(&st) == 1),
            Err(_) => assert!(sh0 != 0 && shape(&st) == sh0),
        }
    }
    kani::cover!(shape(&st) == 2 && sh0 == 0, "reserved_remote");
    kani::cover!(true, "end");
    std::mem::forget(st);
}

/// C17.surface.recv_reset: a received RST_STREAM surfaces with the peer's exact code
/// (all 2^32 values), origin Remote; a reset after END_STREAM keeps the end-of-stream.
pub fn c17_surface_recv_reset_live() { surface_recv_reset(0, 5, false) }
pub fn c17_surface_recv_reset_closed() { surface_recv_reset(6, 11, false) }
pub fn c17_surface_poll_reset_live() { surface_recv_reset(0, 5, true) }
pub fn c17_surface_poll_reset_closed() { surface_recv_reset(6, 11, true) }
// `reason_query` selects which observer is asserted (two queries instead of one:
// `ensure_reason` and `ensure_recv_open` together cost 10x the sum of the parts)
fn surface_recv_reset(lo: u8, hi: u8, reason_query: bool) {
    let id = StreamId::from(1);
    let mut st = any_state_in(id, lo, hi);
    let sh0 = shape(&st);
    let was_closed = st.is_closed();
    let recv_ended = st.is_recv_end_stream();
    let code: u32 = kani::any();
    let queued: bool = kani::any();
    st.recv_reset(frame::Reset::new(id, code.into()), queued);
    if was_closed && !queued {
        assert!(shape(&st) == sh0, "RST_STREAM on a closed, fully consumed stream must change nothing");
    } else {
        assert!(st.is_closed() && st.is_reset() && st.is_remote_reset());
        assert!(!st.is_local_error());
        assert!(st.is_recv_end_stream() == recv_ended, "reset changed whether END_STREAM was received");
        if reason_query {
            let pr = st.ensure_reason(PollReset::Streaming);
            match &pr {
                Ok(Some(r)) => assert!(u32::from(*r) == code, "poll_reset reports a different code"),
                _ => panic!("poll_reset does not report the reset"),
            }
            std::mem::forget(pr);
        } else {
            let ro = st.ensure_recv_open();
            match &ro {
                Ok(open) => assert!(recv_ended && !*open, "reset before END_STREAM must fail reads"),
                Err(Error::Reset(i, r, Initiator::Remote)) => {
                    assert!(!recv_ended, "a complete message must still be delivered after a reset");
                    assert!(*i == id && u32::from(*r) == code);
                }
                Err(_) => panic!("wrong error surfaced"),
            }
            std::mem::forget(ro);
        }
    }
    kani::cover!(was_closed || recv_ended, "reset_after_end_stream_or_closed");
    kani::cover!(true, "end");
    std::mem::forget(st);
}

/// C07/C17: handle_error / recv_eof close every live stream with the broadcast
/// error and leave closed streams (complete messages) alone.
pub fn c07_state_handle_error_goaway_live() { state_handle_error(0, 0, 5, false) }
pub fn c07_state_handle_error_reset_live() { state_handle_error(1, 0, 5, false) }
pub fn c07_state_handle_error_eof_live() { state_handle_error(2, 0, 5, false) }
pub fn c07_state_poll_reset_goaway_live() { state_handle_error(0, 0, 5, true) }
pub fn c07_state_poll_reset_reset_live() { state_handle_error(1, 0, 5, true) }
pub fn c07_state_poll_reset_eof_live() { state_handle_error(2, 0, 5, true) }
pub fn c07_state_handle_error_closed_goaway() { state_handle_error(0, 6, 11, false) }
pub fn c07_state_handle_error_closed_reset() { state_handle_error(1, 6, 11, false) }
pub fn c07_state_handle_error_closed_eof() { state_handle_error(2, 6, 11, false) }
fn state_handle_error(which: u8, lo: u8, hi: u8, reason_query: bool) {
    let id = StreamId::from(1);
    let mut st = any_state_in(id, lo, hi);
    let sh0 = shape(&st);
    let was_closed = st.is_closed();
    let code: u32 = kani::any();
    let init = any_initiator();
    if which == 0 {
        let err = Error::GoAway(bytes::Bytes::new(), code.into(), init);
        st.handle_error(&err);
        std::mem::forget(err);
    } else if which == 1 {
        let err = Error::Reset(id, code.into(), init);
        st.handle_error(&err);
        std::mem::forget(err);
    } else {
        st.recv_eof();
    }
    if was_closed {
        assert!(shape(&st) == sh0, "closed stream touched by a connection error");
    } else {
        assert!(st.is_closed());
        if !reason_query {
            let ro = st.ensure_recv_open();
            match (&ro, which) {
                (Err(Error::GoAway(_, r, i)), 0) => assert!(u32::from(*r) == code && *i == init),
                (Err(Error::Reset(_, r, i)), 1) => assert!(u32::from(*r) == code && *i == init),
                (Err(Error::Io(k, _)), 2) => assert!(*k == std::io::ErrorKind::BrokenPipe),
                _ => panic!("stream does not surface the connection error"),
            }
            std::mem::forget(ro);
        } else {
            // poll_reset: a GOAWAY/RST reason is reported, an I/O failure is an error - never Pending/None
            let pr = st.ensure_reason(PollReset::Streaming);
            match (&pr, which) {
                (Ok(Some(r)), 0) | (Ok(Some(r)), 1) => assert!(u32::from(*r) == code),
                (Err(e), 2) => assert!(e.is_io()),
                _ => panic!("poll_reset would hang or misreport after a connection error"),
            }
            std::mem::forget(pr);
        }
    }
    kani::cover!(true, "end");
    std::mem::forget(st);
}

/// C17.surface: what the public `h2::Error` reports equals what the stream state holds.
pub fn c17_surface_error_conversion() {
    let id = StreamId::from(3);
    let code: u32 = kani::any();
    let init = any_initiator();
    let which: bool = kani::any();
    let pe = if which {
        Error::Reset(id, code.into(), init)
    } else {
        Error::GoAway(bytes::Bytes::from_static(b"dbg"), code.into(), init)
    };
    let e: crate::Error = pe.into();
    assert!(e.reason().map(u32::from) == Some(code), "public error lost the code");
    assert!(e.is_reset() == which && e.is_go_away() == !which);
    assert!(e.is_remote() == (init == Initiator::Remote), "origin (remote) misreported");
    assert!(e.is_library() == (init == Initiator::Library), "origin (library) misreported");
    assert!(!e.is_io());
    kani::cover!(e.is_remote() && e.is_go_away(), "remote_goaway");
    kani::cover!(true, "end");
    std::mem::forget(e);
}

/// State predicates are mutually consistent on every shape (used by the step harnesses).
pub fn c04_state_predicates() {
    let id = StreamId::from(1);
    let st = any_state(id);
    let (s, r) = halves(&st);
    assert!(st.is_send_streaming() == (s == H_OPEN && !st.is_closed()));
    assert!(st.is_recv_streaming() == (r == H_OPEN && !st.is_closed()));
    assert!(st.is_closed() == (shape(&st) >= 6));
    if st.is_closed() {
        assert!(st.is_send_closed());
    }
    assert!(st.is_send_closed() == (s == H_CLOSED));
    assert!(st.is_reset() == (shape(&st) >= 7));
    assert!(st.is_scheduled_reset() == (shape(&st) == 9));
    assert!(st.is_idle() == (shape(&st) == 0));
    // recv-ended: the peer's END_STREAM was seen (or the stream is locally reserved)
    assert!(st.is_recv_end_stream() == (shape(&st) == 5 || shape(&st) == 6 || shape(&st) == 8));
    kani::cover!(st.is_send_streaming() && st.is_recv_streaming(), "open_both");
    kani::cover!(true, "end");
    std::mem::forget(st);
}

pub(crate) fn set_scheduled_reset(s: &mut State, reason: Reason) {
    s.inner = Closed(Cause::ScheduledLibraryReset(reason));
}
