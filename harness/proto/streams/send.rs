// harness bodies for h2 src/proto/streams/send.rs (compiled in-crate as `verif_h`, feature "verif")
use super::*;
use crate::proto::streams::buffer::verif_h as buf_h;
use crate::proto::streams::counts::verif_h as counts_h;
use crate::proto::streams::flow_control::verif_h as fc_h;
use crate::proto::streams::prioritize::verif_h as prio_h;
use crate::proto::streams::state::verif_h as st_h;
use crate::proto::streams::store::verif_h as store_h;
use crate::proto::streams::store::Resolve;
use crate::proto::streams::verif_h::{cfg, cw, SymBuf};
use crate::proto::peer;

type F = Frame<SymBuf>;

pub(crate) struct SWorld {
    pub send: Send,
    pub counts: Counts,
    pub store: Store,
    pub buffer: Buffer<F>,
    pub key: store::Key,
    pub task: Option<Waker>,
}
const ID: u32 = 1;

fn sworld(state_shape: u8, open_streaming: bool) -> SWorld {
    let c = cfg();
    let send = Send::new(&c);
    let mut counts = Counts::new(peer::Dyn::Client, &c);
    let mut store = Store::new();
    let buffer: Buffer<F> = buf_h::with_capacity(4);
    let id = StreamId::from(ID);
    let mut stream = Stream::new(id, 0, 0);
    stream.state = st_h::state_of_shape(state_shape, id);
    if open_streaming {
        st_h::set_inner_open_streaming(&mut stream.state);
    }
    stream.ref_count = 1;
    let key = store_h::insert_slab_only(&mut store, stream);
    {
        let mut p = store.resolve(key);
        counts.inc_num_send_streams(&mut p);
    }
    SWorld { send, counts, store, buffer, key, task: None }
}

/// symbolic send-side ledgers satisfying J=, S2 (buffered = 0: empty queue)
fn sym_ledgers(w: &mut SWorld) -> (i32, i32, i64, i32, i32, u32) {
    let cwv: i32 = kani::any();
    let ca: i32 = kani::any();
    let others: i64 = kani::any();
    let sw: i32 = kani::any();
    let a: i32 = kani::any();
    let req: u32 = kani::any();
    kani::assume(cwv >= 0 && ca >= 0 && others >= 0 && others <= 0x7fff_ffff && a >= 0);
    kani::assume(ca as i64 + a as i64 + others == cwv as i64);
    kani::assume(a as i64 <= if sw > 0 { sw as i64 } else { 0 } && a as i64 <= req as i64);
    prio_h::set_conn_flow(&mut w.send.prioritize, cwv, ca);
    let mut p = w.store.resolve(w.key);
    fc_h::set(&mut p.send_flow, sw, a);
    p.requested_send_capacity = req;
    p.buffered_send_data = 0;
    (cwv, ca, others, sw, a, req)
}

/// C17.one / C17.code / C16.total: explicit reset of an open stream with an empty queue.
pub fn c17_one_send_reset_open() {
    let mut w = sworld(3, true);
    let (cwv, ca, others, _sw, a, _req) = sym_ledgers(&mut w);
    let code: u32 = kani::any();
    let init = if kani::any() { Initiator::User } else { Initiator::Library };
    w.task = Some(cw::waker(3));
    let wakes0 = cw::wakes(3);
    {
        let mut p = w.store.resolve(w.key);
        w.send.send_reset(code.into(), init, &mut w.buffer, &mut p, &mut w.counts, &mut w.task);
    }
    {
        let mut p = w.store.resolve(w.key);
        assert!(p.state.is_reset() && p.state.is_local_error(), "stream not marked reset");
        let pr = p.state.ensure_reason(PollReset::Streaming);
        match &pr {
            Ok(Some(r)) => assert!(u32::from(*r) == code, "C17.code: recorded reset code differs from the caller's"),
            _ => panic!("reset not recorded"),
        }
        std::mem::forget(pr);
        // exactly one RST_STREAM, carrying the caller's code, is queued
        match p.pending_send.pop_front(&mut w.buffer) {
            Some(Frame::Reset(r)) => {
                assert!(u32::from(r.reason()) == code && r.stream_id() == StreamId::from(ID), "C17.code: RST_STREAM code/stream");
            }
            _ => panic!("C17.one: no RST_STREAM queued for an open stream"),
        }
        assert!(p.pending_send.is_empty(), "C17.one: more than one frame queued by a reset");
        assert!(p.is_pending_send, "C06.Q2: RST_STREAM queued but stream not scheduled");
        // C16.total: the stream's capacity went back to the connection
        let (_, a2) = fc_h::get(&p.send_flow);
        assert!(a2 == 0, "reset stream keeps send capacity");
    }
    let (cw2, ca2) = prio_h::conn_flow(&w.send.prioritize);
    assert!(cw2 == cwv && ca2 as i64 == ca as i64 + a as i64 && ca2 as i64 + others == cw2 as i64, "C16.total: capacity of a reset stream leaked");
    assert!(cw::wakes(3) == wakes0 + 1 && w.task.is_none(), "C06.Q3: connection task not woken for the RST_STREAM");
    // second reset with any code: nothing more
    let code2: u32 = kani::any();
    {
        let mut p = w.store.resolve(w.key);
        w.send.send_reset(code2.into(), Initiator::User, &mut w.buffer, &mut p, &mut w.counts, &mut w.task);
        assert!(p.pending_send.is_empty(), "C17.one: a second reset queued another RST_STREAM");
        let pr = p.state.ensure_reason(PollReset::Streaming);
        match &pr {
            Ok(Some(r)) => assert!(u32::from(*r) == code, "a second reset overwrote the first code"),
            _ => panic!("reset lost"),
        }
        std::mem::forget(pr);
    }
    kani::cover!(a > 0, "capacity_returned");
    kani::cover!(true, "end");
    std::mem::forget(w);
}

/// C17.one / C17.code / C16.total / C06: explicit reset of an open stream with an empty queue,
/// with the stream's deque as a ghost (`Deque::push_back` records the appended frame - no
/// slab traffic; the slab-backed form of this query exhausts 44 GB).
pub fn c17_one_send_reset_open_ghost() {
    let mut w = sworld(3, true);
    let (cwv, ca, others, _sw, a, _req) = sym_ledgers(&mut w);
    let code: u32 = kani::any();
    let init = if kani::any() { Initiator::User } else { Initiator::Library };
    w.task = Some(cw::waker(3));
    let wakes0 = cw::wakes(3);
    unsafe { buf_h::G_BACK_RESETS = (0, 0, 0) };
    {
        let mut p = w.store.resolve(w.key);
        w.send.send_reset(code.into(), init, &mut w.buffer, &mut p, &mut w.counts, &mut w.task);
    }
    {
        let mut p = w.store.resolve(w.key);
        assert!(p.state.is_reset() && p.state.is_local_error(), "stream not marked reset");
        let pr = p.state.ensure_reason(PollReset::Streaming);
        match &pr {
            Ok(Some(r)) => assert!(u32::from(*r) == code, "C17.code: recorded reset code differs from the caller's"),
            _ => panic!("reset not recorded"),
        }
        std::mem::forget(pr);
        let g = unsafe { buf_h::G_BACK_RESETS };
        assert!(g.0 == 1, "C17.one: not exactly one RST_STREAM queued for an open stream");
        assert!(g.1 == ID && g.2 == code, "C17.code: RST_STREAM code/stream");
        assert!(p.is_pending_send, "C06.Q2: RST_STREAM queued but stream not scheduled");
        let (_, a2) = fc_h::get(&p.send_flow);
        assert!(a2 == 0, "reset stream keeps send capacity");
    }
    let (cw2, ca2) = prio_h::conn_flow(&w.send.prioritize);
    assert!(cw2 == cwv && ca2 as i64 == ca as i64 + a as i64 && ca2 as i64 + others == cw2 as i64, "C16.total: capacity of a reset stream leaked");
    assert!(cw::wakes(3) == wakes0 + 1 && w.task.is_none(), "C06.Q3: connection task not woken for the RST_STREAM");
    kani::cover!(a > 0, "capacity_returned");
    kani::cover!(true, "end");
    std::mem::forget(w);
}

/// C17.one: resetting a stream that closed cleanly and flushed everything puts nothing
/// on the wire; resetting an already reset stream changes nothing.
fn send_reset_closed(shape: u8) {
    let mut w = sworld(shape, false);
    let _l = sym_ledgers(&mut w);
    let before_reset = {
        let p = w.store.resolve(w.key);
        p.state.is_reset()
    };
    let code: u32 = kani::any();
    {
        let mut p = w.store.resolve(w.key);
        w.send.send_reset(code.into(), Initiator::User, &mut w.buffer, &mut p, &mut w.counts, &mut w.task);
        assert!(p.pending_send.is_empty(), "C17.one: RST_STREAM queued for a stream that had already closed");
        assert!(!p.is_pending_send);
        if before_reset {
            assert!(st_h::shape(&p.state) == shape, "reset of a reset stream changed its state");
        }
    }
    assert!(buf_h::slab_len(&w.buffer) == 0);
    kani::cover!(true, "end");
    std::mem::forget(w);
}
pub fn c17_one_send_reset_closed_clean() { send_reset_closed(6) }
pub fn c17_one_send_reset_already_reset() { send_reset_closed(7) }

/// C17.one: a stream whose END_STREAM is queued (state already Closed(EndStream)) but whose
/// DATA is still blocked on flow control - unsent frames in its queue, stream not
/// scheduled - must still get its RST_STREAM, and the unsent DATA must be discarded.
pub fn c17_one_send_reset_closed_unflushed() {
    let mut w = sworld(6, false);
    let (_cwv, _ca, _others, _sw, _a, _req) = sym_ledgers(&mut w);
    let sz: usize = kani::any();
    kani::assume(sz >= 1 && sz <= 0x7fff_ffff);
    {
        let mut p = w.store.resolve(w.key);
        let mut d = frame::Data::new(StreamId::from(ID), SymBuf { off: 0, rem: sz });
        d.set_end_stream(true);
        p.pending_send.push_back(&mut w.buffer, d.into());
        p.buffered_send_data = sz;
        // blocked: not in the prioritizer's send queue
        assert!(!p.is_pending_send);
    }
    let code: u32 = kani::any();
    {
        let mut p = w.store.resolve(w.key);
        w.send.send_reset(code.into(), Initiator::User, &mut w.buffer, &mut p, &mut w.counts, &mut w.task);
    }
    let mut p = w.store.resolve(w.key);
    match p.pending_send.pop_front(&mut w.buffer) {
        Some(Frame::Reset(r)) => assert!(u32::from(r.reason()) == code, "C17.code"),
        Some(_) => panic!("C17.one: unsent DATA of a reset stream was kept (it would be sent after the reset)"),
        None => panic!("C17.one: no RST_STREAM for a stream that still had unsent frames"),
    }
    assert!(p.pending_send.is_empty() && p.buffered_send_data == 0);
    assert!(p.is_pending_send, "C06.Q2: RST_STREAM queued but stream not scheduled");
    kani::cover!(true, "end");
    std::mem::forget(w);
}

/// Ghost-deque form of `c17_one_send_reset_closed_unflushed` (quick tier): the stream's deque
/// claims one unsent DATA+END_STREAM frame (`Deque::pop_front` hands it out, `push_back`
/// records the RST_STREAM and requires the queue to have been emptied first).
pub fn c17_one_send_reset_closed_unflushed_ghost() {
    let mut w = sworld(6, false);
    let (_cwv, _ca, _others, _sw, _a, _req) = sym_ledgers(&mut w);
    let sz: usize = kani::any();
    kani::assume(sz >= 1 && sz <= 0x7fff_ffff);
    unsafe {
        buf_h::G_DATA = (0, sz, true);
        buf_h::G_BACK_RESETS = (0, 0, 0);
    }
    {
        let mut p = w.store.resolve(w.key);
        p.pending_send = buf_h::fake_nonempty();
        p.buffered_send_data = sz;
        // blocked: not in the prioritizer's send queue
        assert!(!p.is_pending_send);
    }
    let code: u32 = kani::any();
    {
        let mut p = w.store.resolve(w.key);
        w.send.send_reset(code.into(), Initiator::User, &mut w.buffer, &mut p, &mut w.counts, &mut w.task);
    }
    let p = w.store.resolve(w.key);
    let g = unsafe { buf_h::G_BACK_RESETS };
    assert!(g.0 == 1, "C17.one: no RST_STREAM (or more than one) for a closed stream that still had unsent frames");
    assert!(g.1 == ID && g.2 == code, "C17.code");
    assert!(p.buffered_send_data == 0);
    assert!(p.is_pending_send, "C06.Q2: RST_STREAM queued but stream not scheduled");
    kani::cover!(true, "end");
    std::mem::forget(w);
}

/// C17: implicit reset when the last handle is dropped (`schedule_implicit_reset`).
fn implicit_reset(shape: u8, streaming: bool) {
    let mut w = sworld(shape, streaming);
    let (cwv, ca, others, _sw, a, _req) = sym_ledgers(&mut w);
    let code: u32 = kani::any();
    let was_closed = {
        let p = w.store.resolve(w.key);
        p.state.is_closed()
    };
    w.task = Some(cw::waker(3));
    let wakes0 = cw::wakes(3);
    {
        let mut p = w.store.resolve(w.key);
        w.send.schedule_implicit_reset(&mut p, code.into(), &mut w.counts, &mut w.task);
    }
    let p = w.store.resolve(w.key);
    if was_closed {
        assert!(st_h::shape(&p.state) == shape && !p.is_pending_send, "implicit reset of a closed stream must do nothing");
    } else {
        assert!(p.state.is_scheduled_reset() && p.state.get_scheduled_reset().map(u32::from) == Some(code), "scheduled reset code");
        assert!(p.is_pending_send, "C06.Q2: scheduled reset but stream not queued for sending");
        assert!(cw::wakes(3) == wakes0 + 1, "C06.Q3: connection not woken for a scheduled reset");
        let (_, a2) = fc_h::get(&p.send_flow);
        assert!(a2 == 0, "reserved capacity not returned (nothing is buffered)");
        let (cw2, ca2) = prio_h::conn_flow(&w.send.prioritize);
        assert!(cw2 == cwv && ca2 as i64 == ca as i64 + a as i64 && ca2 as i64 + others == cw2 as i64, "C16.total after implicit reset");
        assert!(p.pending_send.is_empty(), "implicit reset queues the RST_STREAM only when popped");
    }
    kani::cover!(!was_closed, "scheduled");
    kani::cover!(true, "end");
    std::mem::forget(w);
}
pub fn c17_implicit_reset_open() { implicit_reset(3, true) }
pub fn c17_implicit_reset_half_closed_remote() { implicit_reset(5, false) }
pub fn c17_implicit_reset_closed() { implicit_reset(6, false) }

/// C16.nonzero: `poll_capacity` never reports zero, ends when the stream can no longer
/// send, stores the waker before returning Pending.
pub fn c16_nonzero_poll_capacity() {
    let mut w = sworld(3, false); // Open {local, remote} symbolic
    let (_cwv, _ca, _others, _sw, a, _req) = sym_ledgers(&mut w);
    let buffered: usize = kani::any();
    let inc: bool = kani::any();
    {
        let mut p = w.store.resolve(w.key);
        p.buffered_send_data = buffered;
        p.send_capacity_inc = inc;
    }
    let wk = cw::waker(0);
    let cx = Context::from_waker(&wk);
    let r = {
        let mut p = w.store.resolve(w.key);
        w.send.poll_capacity(&cx, &mut p)
    };
    let mut p = w.store.resolve(w.key);
    let streaming = p.state.is_send_streaming();
    match r {
        Poll::Ready(None) => assert!(!streaming, "capacity stream ended while the stream can still send"),
        Poll::Ready(Some(Ok(c))) => {
            assert!(streaming && inc);
            assert!(c > 0, "C16.nonzero: poll_capacity reported zero capacity");
            assert!(c as i64 <= a as i64, "reported capacity above what is assigned");
            assert!(!p.send_capacity_inc);
        }
        Poll::Ready(Some(Err(_))) => panic!("unexpected error"),
        Poll::Pending => {
            assert!(streaming);
            // the waker is stored: a later notify_send reaches this task
            let w0 = cw::wakes(0);
            p.notify_send();
            assert!(cw::wakes(0) == w0 + 1, "C06: poll_capacity returned Pending without storing the waker");
        }
    }
    kani::cover!(matches!(r, Poll::Pending) && inc, "flag_set_but_zero");
    kani::cover!(matches!(r, Poll::Ready(Some(Ok(_)))), "reported");
    kani::cover!(true, "end");
    std::mem::forget(w);
}

/// C04.ids: `Send::open` hands out strictly increasing ids of the same parity and
/// refuses (forever) once they are exhausted - for every starting id.
pub fn c04_ids_open_sequence() {
    let c = cfg();
    let mut send = Send::new(&c);
    let start: u32 = kani::any();
    kani::assume(start >= 1 && start <= 0x7fff_ffff);
    send.next_stream_id = Ok(StreamId::from(start));
    let a = send.open();
    let b = send.open();
    let c3 = send.reserve_local();
    match (&a, &b) {
        (Ok(x), Ok(y)) => {
            assert!(u32::from(*x) == start && u32::from(*y) == start + 2, "ids must increase by 2");
            assert!(u32::from(*y) <= 0x7fff_ffff);
        }
        (Ok(x), Err(_)) => {
            assert!(u32::from(*x) == start && start as u64 + 2 > 0x7fff_ffff, "spurious id exhaustion");
            assert!(c3.is_err(), "C04: ids wrapped or restarted after exhaustion");
        }
        _ => panic!("first open failed although an id was available"),
    }
    if let (Ok(y), Ok(z)) = (&b, &c3) {
        assert!(u32::from(*z) == u32::from(*y) + 2);
    }
    kani::cover!(b.is_err(), "exhausted");
    kani::cover!(true, "end");
    std::mem::forget(send);
}

// ---------------------------------------------------------------------------
// C02.settings: SETTINGS_INITIAL_WINDOW_SIZE change applied to an existing stream
// ---------------------------------------------------------------------------
pub(crate) fn stub_send_reset_unreachable<B>(_s: &mut Send, _r: Reason, _i: Initiator, _b: &mut Buffer<Frame<B>>, _p: &mut store::Ptr, _c: &mut Counts, _t: &mut Option<Waker>) {
    panic!("UNREACHABLE-STUB Send::send_reset")
}

/// One stream (ids through the IndexMap shim) in any state shape lo..=hi, any ledger
/// values satisfying J=,S2, any old/new initial window.  Reference (RFC 9113 §6.9.2):
/// every stream that may still send DATA - send half not closed, or data still
/// buffered - has its window moved by exactly new - old (it may go negative); capacity
/// above the shrunk window returns to the connection; nothing else changes.
fn settings_window_change(decrease: bool, lo: u8, hi: u8) {
    let c = cfg();
    let mut send = Send::new(&c);
    let mut counts = Counts::new(peer::Dyn::Server, &c);
    let mut store = Store::new();
    let mut buffer: Buffer<F> = buf_h::with_capacity(4);
    let id = StreamId::from(ID);
    let mut stream = Stream::new(id, 0, 0);
    stream.state = st_h::any_state_in(id, lo, hi);
    stream.ref_count = 1;
    let key = store.insert(id, stream).key();
    let mut w = SWorld { send, counts, store, buffer, key, task: None };
    let (cwv, ca, others, sw, a, _req) = sym_ledgers(&mut w);
    let buffered: usize = kani::any();
    kani::assume(buffered <= (1usize << 40));
    {
        let mut p = w.store.resolve(w.key);
        p.buffered_send_data = buffered;
        kani::assume(p.requested_send_capacity as u64 >= if buffered as u64 > u32::MAX as u64 { u32::MAX as u64 } else { buffered as u64 });
    }
    let old: u32 = kani::any();
    let new: u32 = kani::any();
    kani::assume(old <= 0x7fff_ffff && new <= 0x7fff_ffff);
    if decrease {
        kani::assume(new < old);
    } else {
        kani::assume(new > old);
        // the increase must not overflow the stream window (that is the FLOW_CONTROL_ERROR
        // path, which resets the stream: Send::send_reset is an unreachability stub here)
        kani::assume(sw as i64 + (new as i64 - old as i64) <= 0x7fff_ffff);
    }
    w.send.init_window_sz = old;
    let (send_half, _) = {
        let p = w.store.resolve(w.key);
        st_h::halves(&p.state)
    };
    let may_send = !(send_half == st_h::H_CLOSED && buffered == 0);
    let mut s = frame::Settings::default();
    s.set_initial_window_size(Some(new));
    let r = w.send.apply_remote_settings(&s, &mut w.buffer, &mut w.store, &mut w.counts, &mut w.task);
    let p = w.store.resolve(w.key);
    let (sw2, a2) = fc_h::get(&p.send_flow);
    let (cw2, ca2) = prio_h::conn_flow(&w.send.prioritize);
    match &r {
        Ok(()) => {
            assert!(w.send.init_window_sz() == new, "new initial window not recorded for future streams");
            if may_send {
                assert!(sw2 as i64 == sw as i64 + new as i64 - old as i64,
                    "C02.settings: window of a stream that can still send DATA not moved by exactly new - old");
            } else {
                assert!(sw2 == sw, "window of a send-closed, drained stream touched");
            }
            // capacity: never more than the (shrunk) window allows; excess returned
            assert!(a2 as i64 <= if sw2 > 0 { sw2 as i64 } else { 0 }, "S2: stream keeps capacity above its shrunk window");
            assert!(a2 <= a || !decrease, "a decrease must not add capacity");
            assert!(cw2 == cwv, "connection window touched by SETTINGS");
            assert!(ca2 >= 0 && ca2 as i64 + a2 as i64 + others == cw2 as i64, "J=: capacity leaked or invented while applying SETTINGS");
            let _ = ca;
        }
        Err(e) => {
            assert!(matches!(e, Error::GoAway(_, Reason::FLOW_CONTROL_ERROR, Initiator::Library)), "must be a connection FLOW_CONTROL_ERROR");
            assert!(decrease && may_send && (sw as i64 - (old as i64 - new as i64)) < i32::MIN as i64, "representable window change refused");
        }
    }
    kani::cover!(r.is_ok() && may_send && sw2 < 0, "negative_window");
    kani::cover!(r.is_ok() && a2 < a, "capacity_reclaimed");
    kani::cover!(r.is_ok() && !may_send, "skipped");
    kani::cover!(true, "end");
    std::mem::forget(r);
    std::mem::forget(w);
}
pub fn c02_settings_decrease_live() { settings_window_change(true, 0, 5) }
pub fn c02_settings_decrease_closed() { settings_window_change(true, 6, 11) }
pub fn c02_settings_increase_live() { settings_window_change(false, 0, 5) }
pub fn c02_settings_increase_closed() { settings_window_change(false, 6, 11) }

/// ghost for `Send::send_reset` in the *caller's* quota obligation (C18.lerr): records the call
pub(crate) static mut G_SEND_RESETS: u32 = 0;
pub(crate) fn stub_send_reset_record<B>(_s: &mut Send, _r: Reason, _i: Initiator, _b: &mut Buffer<Frame<B>>, _p: &mut store::Ptr, _c: &mut Counts, _t: &mut Option<Waker>) {
    unsafe { G_SEND_RESETS += 1 };
}
