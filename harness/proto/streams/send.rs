// harness bodies for h2 src/proto/streams/send.rs (compiled in-crate as `verif_h`, feature "verif")
