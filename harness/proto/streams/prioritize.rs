// harness bodies for h2 src/proto/streams/prioritize.rs (compiled in-crate as `verif_h`, feature "verif")
//
// Send-side step harnesses (C02, C16, C06, C01.split/reclaim, C20.window).
//
// World: one concrete stream record (the *target*) + a ghost aggregate `others` that
// stands for the capacity assigned to all other streams.  Queue membership and the
// kinds of queued frames are concrete per query; every integer is symbolic.
//
// Invariants (assumed on the pre-state, asserted on the post-state):
//   J=  conn.available + target.available + others = conn.window_size,  conn.available >= 0,
//       0 <= conn.window_size <= 2^31-1
//   S2  0 <= target.available <= max(target.window, 0);  target.available <= requested
//   S4  requested >= min(buffered, u32::MAX)
//   S3  buffered = sum of remaining() over the DATA frames queued for the target
//   Q1  owed => queued for capacity;  Q2  sendable head => queued for sending
use super::*;
use crate::proto::streams::buffer::verif_h as buf_h;
use crate::proto::streams::counts::verif_h as counts_h;
use crate::proto::streams::flow_control::verif_h as fc_h;
use crate::proto::streams::state::verif_h as st_h;
use crate::proto::streams::store::verif_h as store_h;
use crate::proto::streams::verif_h::{cfg, cw, SymBuf};
use std::task::Context;

pub(crate) type F = Frame<SymBuf>;
const MAXW: i64 = MAX_WINDOW_SIZE as i64;

pub(crate) fn conn_flow(p: &Prioritize) -> (i32, i32) {
    fc_h::get(&p.flow)
}
pub(crate) fn set_conn_flow(p: &mut Prioritize, w: i32, a: i32) {
    fc_h::set(&mut p.flow, w, a);
}
pub(crate) fn set_max_buffer(p: &mut Prioritize, m: usize) {
    p.max_buffer_size = m;
}
pub(crate) fn pending_send_empty(p: &Prioritize) -> bool {
    store_h::queue_is_empty(&p.pending_send)
}
pub(crate) fn pending_capacity_empty(p: &Prioritize) -> bool {
    store_h::queue_is_empty(&p.pending_capacity)
}
pub(crate) fn pending_open_empty(p: &Prioritize) -> bool {
    store_h::queue_is_empty(&p.pending_open)
}
pub(crate) fn push_pending_send(p: &mut Prioritize, s: &mut store::Ptr) {
    p.pending_send.push(s);
}
pub(crate) fn push_pending_capacity(p: &mut Prioritize, s: &mut store::Ptr) {
    p.pending_capacity.push(s);
}
pub(crate) fn push_pending_open(p: &mut Prioritize, s: &mut store::Ptr) {
    p.pending_open.push(s);
}
pub(crate) fn in_flight_is_nothing(p: &Prioritize) -> bool {
    p.in_flight_data_frame == InFlightData::Nothing
}
pub(crate) fn in_flight_is_drop(p: &Prioritize) -> bool {
    p.in_flight_data_frame == InFlightData::Drop
}
pub(crate) fn set_in_flight(p: &mut Prioritize, k: Option<store::Key>) {
    p.in_flight_data_frame = match k {
        Some(k) => InFlightData::DataFrame(k),
        None => InFlightData::Nothing,
    };
}

/// symbolic integers of the pre-state
#[derive(Clone, Copy)]
pub(crate) struct Pre {
    pub cw: i32,
    pub ca: i32,
    pub others: i64,
    pub w: i32,
    pub a: i32,
    pub req: u32,
    pub buffered: usize,
}

/// the world (small values only: the real slab keeps records on the heap)
pub(crate) struct World {
    pub prio: Prioritize,
    pub counts: Counts,
    pub store: Store,
    pub buffer: Buffer<F>,
    pub key: store::Key,
    pub task: Option<Waker>,
}

pub(crate) const ID: u32 = 1;

/// One client-side stream, id 1, state given by `shape`/peers, counted, with a handle.
pub(crate) fn world(state_shape: u8) -> World {
    let c = cfg();
    let prio = Prioritize::new(&c);
    let mut counts = Counts::new(peer::Dyn::Client, &c);
    let mut store = Store::new();
    let buffer: Buffer<F> = buf_h::with_capacity(4);
    let id = StreamId::from(ID);
    let mut stream = Stream::new(id, 0, 0);
    stream.state = st_h::state_of_shape(state_shape, id);
    stream.ref_count = 1;
    let key = store_h::insert_slab_only(&mut store, stream);
    {
        let mut ptr = store.resolve(key);
        counts.inc_num_send_streams(&mut ptr);
    }
    World { prio, counts, store, buffer, key, task: None }
}

/// Writes a symbolic, invariant-satisfying integer pre-state in place and returns it.
/// `buffered_is`: Some(x) pins buffered_send_data to the queued DATA total (S3).
pub(crate) fn sym_pre(w: &mut World, buffered_is: Option<usize>) -> Pre {
    let cwv: i32 = kani::any();
    let ca: i32 = kani::any();
    let others: i64 = kani::any();
    let sw: i32 = kani::any();
    let a: i32 = kani::any();
    let req: u32 = kani::any();
    let buffered: usize = match buffered_is {
        Some(b) => b,
        None => kani::any(),
    };
    // J=
    kani::assume(cwv >= 0 && ca >= 0 && others >= 0 && others <= MAXW);
    kani::assume(a >= 0);
    kani::assume(ca as i64 + a as i64 + others == cwv as i64);
    // S2
    kani::assume(a as i64 <= if sw > 0 { sw as i64 } else { 0 });
    kani::assume(a as i64 <= req as i64);
    // S4
    kani::assume(req as u64 >= if buffered as u64 > u32::MAX as u64 { u32::MAX as u64 } else { buffered as u64 });
    kani::assume(buffered <= (1usize << 40));
    set_conn_flow(&mut w.prio, cwv, ca);
    let mut p = w.store.resolve(w.key);
    fc_h::set(&mut p.send_flow, sw, a);
    p.requested_send_capacity = req;
    p.buffered_send_data = buffered;
    Pre { cw: cwv, ca, others, w: sw, a, req, buffered }
}

pub(crate) struct Post {
    pub cw: i32,
    pub ca: i32,
    pub w: i32,
    pub a: i32,
    pub req: u32,
    pub buffered: usize,
}
pub(crate) fn post(w: &mut World) -> Post {
    let (cwv, ca) = conn_flow(&w.prio);
    let p = w.store.resolve(w.key);
    let (sw, a) = fc_h::get(&p.send_flow);
    Post { cw: cwv, ca, w: sw, a, req: p.requested_send_capacity, buffered: p.buffered_send_data }
}

/// J= and S2/S4 on the post-state; `others` is untouched by construction.
pub(crate) fn assert_inv(pre: &Pre, q: &Post) {
    assert!(q.ca >= 0, "J: connection available went negative");
    assert!(q.cw >= 0 && q.cw as i64 <= MAXW, "J: connection window out of range");
    assert!(q.ca as i64 + q.a as i64 + pre.others == q.cw as i64,
        "J=: assigned + unassigned capacity != connection window (capacity leaked or invented)");
    assert!(q.a >= 0, "S2: stream available went negative");
    assert!(q.a as i64 <= if q.w > 0 { q.w as i64 } else { 0 }, "S2: stream holds more capacity than its window");
    assert!(q.a as i64 <= q.req as i64, "S2: assigned capacity above the requested capacity");
    assert!(q.req as u64 >= if q.buffered as u64 > u32::MAX as u64 { u32::MAX as u64 } else { q.buffered as u64 },
        "S4: requested capacity below the buffered data");
}

/// Q1 (C06): the stream still wants capacity that its own window allows => it is
/// queued for connection capacity (nothing else will ever re-examine it).
pub(crate) fn assert_q1(w: &mut World) {
    let p = w.store.resolve(w.key);
    let (sw, a) = fc_h::get(&p.send_flow);
    let wants = (a as i64) < p.requested_send_capacity as i64;
    let room = sw >= 0 && sw > a;
    let active = p.state.is_send_streaming() || p.buffered_send_data > 0;
    if wants && room && active && !p.is_pending_open {
        assert!(p.is_pending_send_capacity, "Q1: stream owed capacity but not queued in pending_capacity (lost wakeup)");
    }
}

/// Q1 on the pre-state: a stream that is *not* queued for capacity does not satisfy
/// Q1's antecedent (for a send-streaming, not pending-open target).
pub(crate) fn assume_q1_unqueued(pre: &Pre) {
    let wants = (pre.a as i64) < pre.req as i64;
    let room = pre.w >= 0 && pre.w > pre.a;
    kani::assume(!(wants && room));
}

fn forget(w: World) {
    std::mem::forget(w);
}

// ---------------------------------------------------------------------------
// reserve_capacity
// ---------------------------------------------------------------------------
fn step_reserve_capacity(queued_cap: bool) {
    let mut w = world(3);
    {
        let mut p = w.store.resolve(w.key);
        st_h::set_inner_open_streaming(&mut p.state);
        if queued_cap {
            push_pending_capacity(&mut w.prio, &mut p);
        }
    }
    let pre = sym_pre(&mut w, None);
    if !queued_cap {
        assume_q1_unqueued(&pre);
    }
    let cap: WindowSize = kani::any();
    {
        let mut p = w.store.resolve(w.key);
        w.prio.reserve_capacity(cap, &mut p, &mut w.counts);
    }
    let q = post(&mut w);
    assert_inv(&pre, &q);
    assert_q1(&mut w);
    assert!(q.w == pre.w && q.cw == pre.cw, "reserve_capacity changed a window");
    assert!(q.buffered == pre.buffered);
    let want = cap as u64 + pre.buffered as u64;
    // requested follows the request (saturating at u32::MAX)
    assert!(q.req as u64 == if want > u32::MAX as u64 { u32::MAX as u64 } else { want }, "requested_send_capacity");
    // lowering returns the excess to the connection at once
    if want < pre.a as u64 {
        assert!(q.a as u64 == want, "capacity above the lowered request was not returned");
    }
    // the user-visible capacity never exceeds what is assigned and usable
    let p = w.store.resolve(w.key);
    let usable = p.capacity(1 << 20);
    assert!(usable as i64 <= q.a as i64);
    kani::cover!(q.a > pre.a, "granted");
    kani::cover!(q.a < pre.a, "returned");
    kani::cover!(true, "end");
    forget(w);
}
pub fn c02_step_reserve_capacity() { step_reserve_capacity(false) }
pub fn c02_step_reserve_capacity_queued() { step_reserve_capacity(true) }

// ---------------------------------------------------------------------------
// send_data (eos = false): data is buffered, capacity requested, nothing leaves
// ---------------------------------------------------------------------------
pub fn c02_step_send_data() {
    let mut w = world(3);
    {
        let mut p = w.store.resolve(w.key);
        st_h::set_inner_open_streaming(&mut p.state);
    }
    let pre = sym_pre(&mut w, Some(0));
    assume_q1_unqueued(&pre);
    let sz: usize = kani::any();
    let frame = frame::Data::new(StreamId::from(ID), SymBuf { off: 0, rem: sz });
    let r = {
        let mut p = w.store.resolve(w.key);
        w.prio.send_data(frame, &mut w.buffer, &mut p, &mut w.counts, &mut w.task)
    };
    let q = post(&mut w);
    match r {
        Ok(()) => {
            assert!(sz as u64 <= MAXW as u64, "send_data accepted a payload above 2^31-1");
            assert!(q.buffered == sz, "S3: buffered_send_data != queued bytes");
            assert_inv(&pre, &q);
            assert_q1(&mut w);
            assert!(q.cw == pre.cw && q.w == pre.w, "send_data changed a window (DATA leaves only through pop_frame)");
            let p = w.store.resolve(w.key);
            assert!(!p.pending_send.is_empty(), "frame not queued");
            // Q2: sendable now => scheduled
            if q.a > 0 || sz == 0 {
                assert!(p.is_pending_send, "Q2: sendable DATA queued but stream not scheduled");
            }
        }
        Err(_) => {
            assert!(sz as u64 > MAXW as u64, "send_data refused a legal payload on an open stream");
            assert!(q.buffered == pre.buffered && q.a == pre.a && q.ca == pre.ca, "state changed on Err");
        }
    }
    kani::cover!(r.is_ok() && q.a > pre.a, "capacity_assigned");
    kani::cover!(r.is_ok() && q.a == 0 && sz > 0, "blocked");
    kani::cover!(true, "end");
    forget(w);
}

// ---------------------------------------------------------------------------
// WINDOW_UPDATE on the stream / on the connection
// ---------------------------------------------------------------------------
fn step_recv_stream_window_update(queued_cap: bool) {
    let mut w = world(3);
    {
        let mut p = w.store.resolve(w.key);
        st_h::set_inner_open_streaming(&mut p.state);
        if queued_cap {
            push_pending_capacity(&mut w.prio, &mut p);
        }
    }
    let pre = sym_pre(&mut w, None);
    if !queued_cap {
        assume_q1_unqueued(&pre);
    }
    let inc: u32 = kani::any();
    kani::assume(inc >= 1 && inc as i64 <= MAXW);
    let r = {
        let mut p = w.store.resolve(w.key);
        w.prio.recv_stream_window_update(inc, &mut p)
    };
    let q = post(&mut w);
    match r {
        Ok(()) => {
            assert!(q.w as i64 == pre.w as i64 + inc as i64, "stream window != old + increment");
            assert!(q.cw == pre.cw, "stream WINDOW_UPDATE changed the connection window");
            assert_inv(&pre, &q);
            assert_q1(&mut w);
            // the waiting stream receives min(conn available, wanted, window room)
            let wanted = pre.req as i64 - pre.a as i64;
            let room = if q.w > 0 { q.w as i64 - pre.a as i64 } else { 0 };
            let mut give = if wanted < room { wanted } else { room };
            if give > pre.ca as i64 { give = pre.ca as i64; }
            if give < 0 { give = 0; }
            assert!(q.a as i64 == pre.a as i64 + give, "C16.reach: capacity handed to the waiting stream");
        }
        Err(e) => {
            assert!(pre.w as i64 + inc as i64 > MAXW, "legal stream WINDOW_UPDATE rejected");
            assert!(e == Reason::FLOW_CONTROL_ERROR, "window overflow must be FLOW_CONTROL_ERROR");
            assert!(q.w == pre.w && q.a == pre.a && q.ca == pre.ca);
        }
    }
    kani::cover!(r.is_ok() && q.a > pre.a, "granted");
    kani::cover!(r.is_err(), "overflow");
    kani::cover!(r.is_ok() && pre.w < 0, "from_negative_window");
    kani::cover!(true, "end");
    forget(w);
}
pub fn c02_step_recv_stream_window_update() { step_recv_stream_window_update(false) }
pub fn c02_step_recv_stream_window_update_queued() { step_recv_stream_window_update(true) }

fn step_recv_connection_window_update(queued_cap: bool) {
    let mut w = world(3);
    {
        let mut p = w.store.resolve(w.key);
        st_h::set_inner_open_streaming(&mut p.state);
        if queued_cap {
            push_pending_capacity(&mut w.prio, &mut p);
        }
    }
    let pre = sym_pre(&mut w, None);
    if !queued_cap {
        assume_q1_unqueued(&pre);
    }
    let inc: u32 = kani::any();
    kani::assume(inc >= 1 && inc as i64 <= MAXW);
    let r = w.prio.recv_connection_window_update(inc, &mut w.store, &mut w.counts);
    let q = post(&mut w);
    match r {
        Ok(()) => {
            assert!(q.cw as i64 == pre.cw as i64 + inc as i64, "connection window != old + increment");
            assert!(q.w == pre.w, "connection WINDOW_UPDATE changed a stream window");
            assert_inv(&pre, &q);
            assert_q1(&mut w);
            if queued_cap {
                // C16.reach: the waiting stream gets min(conn available, wanted, window room)
                let wanted = pre.req as i64 - pre.a as i64;
                let room = if pre.w > 0 { pre.w as i64 - pre.a as i64 } else { 0 };
                let mut give = if wanted < room { wanted } else { room };
                let have = pre.ca as i64 + inc as i64;
                if give > have { give = have; }
                if give < 0 { give = 0; }
                assert!(q.a as i64 == pre.a as i64 + give, "C16.reach: returned/new capacity did not reach the waiter");
            } else {
                assert!(q.a == pre.a, "an unqueued stream was given capacity");
            }
        }
        Err(e) => {
            assert!(pre.cw as i64 + inc as i64 > MAXW, "legal connection WINDOW_UPDATE rejected");
            assert!(e == Reason::FLOW_CONTROL_ERROR);
            assert!(q.cw == pre.cw && q.ca == pre.ca && q.a == pre.a);
        }
    }
    kani::cover!(r.is_ok() && q.a > pre.a, "granted");
    kani::cover!(r.is_err(), "overflow");
    kani::cover!(true, "end");
    forget(w);
}
pub fn c02_step_recv_connection_window_update() { step_recv_connection_window_update(false) }
pub fn c02_step_recv_connection_window_update_queued() { step_recv_connection_window_update(true) }

// ---------------------------------------------------------------------------
// reclaim_all_capacity / reclaim_reserved_capacity (reset, handle drop)
// ---------------------------------------------------------------------------
fn step_reclaim(all: bool, state_shape: u8) {
    let mut w = world(state_shape);
    let pre = sym_pre(&mut w, None);
    {
        let mut p = w.store.resolve(w.key);
        if all {
            w.prio.reclaim_all_capacity(&mut p, &mut w.counts);
        } else {
            w.prio.reclaim_reserved_capacity(&mut p, &mut w.counts);
        }
    }
    let q = post(&mut w);
    // J= must hold; S2's `a <= req` too
    assert_inv(&pre, &q);
    assert!(q.cw == pre.cw && q.w == pre.w);
    if all {
        assert!(q.a == 0, "reclaim_all_capacity left capacity on the stream");
        assert!(q.ca as i64 == pre.ca as i64 + pre.a as i64, "C16: capacity of a reset stream did not return to the connection");
    } else {
        let keep = if (pre.a as u64) < pre.buffered as u64 { pre.a as u64 } else { pre.buffered as u64 };
        assert!(q.a as u64 == keep, "reclaim_reserved_capacity must keep exactly the buffered part");
    }
    kani::cover!(q.ca > pre.ca, "returned");
    kani::cover!(true, "end");
    forget(w);
}
pub fn c16_step_reclaim_all_open() { step_reclaim(true, 3) }
pub fn c16_step_reclaim_all_closed() { step_reclaim(true, 7) }
pub fn c16_step_reclaim_reserved_open() { step_reclaim(false, 3) }

// ---------------------------------------------------------------------------
// Stream::capacity / assign_capacity / send_data (C16.usable, C06.cap)
// ---------------------------------------------------------------------------
pub fn c16_usable_capacity() {
    let mut s = Stream::new(StreamId::from(ID), 0, 0);
    let a: i32 = kani::any();
    let wv: i32 = kani::any();
    kani::assume(a >= 0 && a as i64 <= if wv > 0 { wv as i64 } else { 0 });
    fc_h::set(&mut s.send_flow, wv, a);
    let buffered: usize = kani::any();
    s.buffered_send_data = buffered;
    let max_buf: usize = kani::any();
    let c = s.capacity(max_buf);
    let m = if (a as usize) < max_buf { a as usize } else { max_buf };
    let want = if m > buffered { m - buffered } else { 0 };
    assert!(c as usize == want, "capacity() != min(available, max_buffer) - buffered");
    // what capacity() promises is covered by the stream's own window without a further grant
    assert!(c as i64 + (if buffered < m { buffered } else { m }) as i64 <= if wv > 0 { wv as i64 } else { 0 },
        "C16.usable: reported capacity exceeds the stream window");
    kani::cover!(c > 0, "positive");
    kani::cover!(true, "end");
    std::mem::forget(s);
}

pub fn c06_cap_assign_notifies() {
    let mut s = Stream::new(StreamId::from(ID), 0, 0);
    let a: i32 = kani::any();
    let wv: i32 = kani::any();
    kani::assume(a >= 0 && wv >= 0 && a <= wv);
    fc_h::set(&mut s.send_flow, wv, a);
    let buffered: usize = kani::any();
    s.buffered_send_data = buffered;
    let max_buf: usize = kani::any();
    let add: u32 = kani::any();
    kani::assume(add >= 1 && add as i64 + a as i64 <= wv as i64);
    let waiting: bool = kani::any();
    if waiting {
        let wk = cw::waker(0);
        let cx = Context::from_waker(&wk);
        s.wait_send(&cx);
        std::mem::forget(wk);
    }
    let before = s.capacity(max_buf);
    let wakes0 = cw::wakes(0);
    s.assign_capacity(add, max_buf);
    let after = s.capacity(max_buf);
    let (_, a2) = fc_h::get(&s.send_flow);
    assert!(a2 as i64 == a as i64 + add as i64);
    if after > before {
        assert!(s.send_capacity_inc, "C06.cap: user-visible capacity rose but the increase flag is not set");
        if waiting {
            assert!(cw::wakes(0) == wakes0 + 1, "C06.cap: capacity waiter not woken");
        }
    }
    kani::cover!(after > before && waiting, "woken");
    kani::cover!(after == before, "hidden_by_buffer_limit");
    kani::cover!(true, "end");
    std::mem::forget(s);
}

// ---------------------------------------------------------------------------
// pop_frame: the only producer of outbound DATA (C01.split, C02.emit, C02.neg)
// ---------------------------------------------------------------------------
pub(crate) fn stub_clear_queue_unreachable<B>(_p: &mut Prioritize, _b: &mut Buffer<Frame<B>>, _s: &mut store::Ptr) {
    panic!("UNREACHABLE-STUB Prioritize::clear_queue")
}
/// Drop-free model of `Prioritize::clear_queue` for the *callers'* obligations: identical
/// statements, except that popped frames are forgotten instead of dropped (the drop glue
/// of `Frame` - HeaderMap buckets, Bytes vtables - exhausts the solver: measured 34k VCCs).
pub(crate) fn stub_clear_queue_no_drop<B>(this: &mut Prioritize, buffer: &mut Buffer<Frame<B>>, stream: &mut store::Ptr) {
    while let Some(frame) = stream.pending_send.pop_front(buffer) {
        std::mem::forget(frame);
    }
    stream.buffered_send_data = 0;
    stream.requested_send_capacity = 0;
    if let InFlightData::DataFrame(key) = this.in_flight_data_frame {
        if stream.key() == key {
            this.in_flight_data_frame = InFlightData::Drop;
        }
    }
}
pub(crate) fn stub_reclaim_all_unreachable(_p: &mut Prioritize, _s: &mut store::Ptr, _c: &mut Counts) {
    panic!("UNREACHABLE-STUB Prioritize::reclaim_all_capacity")
}

/// One queued DATA frame of symbolic size on an open stream; every window symbolic
/// (including zero and negative stream windows after a SETTINGS shrink).
fn pop_frame_one_data(eos: bool) {
    pop_frame_one_data_regime(eos, false)
}
/// `sendable_only`: restrict to pre-states in which the frame can be (partly) sent now,
/// i.e. no path puts it back (Deque::push_front is an unreachability stub in that query).
fn pop_frame_one_data_regime(eos: bool, sendable_only: bool) {
    pop_frame_one_data_full(eos, sendable_only, false)
}
/// `ghost`: the stream's deque is the ghost of buffer.rs (stub set `ghost_deque_one_data`): no slab
/// traffic is encoded, which brings the query from 36 min / 46 GB down to the quick tier, and the
/// whole regime (sendable and blocked) is decided in one query.
fn pop_frame_one_data_full(eos: bool, sendable_only: bool, ghost: bool) {
    // eos => the send half was closed when the frame was queued (HalfClosedLocal)
    let mut w = world(if eos { 4 } else { 3 });
    {
        let mut p = w.store.resolve(w.key);
        if !eos {
            st_h::set_inner_open_streaming(&mut p.state);
        }
    }
    let sz: usize = kani::any();
    kani::assume(sz as u64 <= MAXW as u64);
    let off: usize = kani::any();
    kani::assume(off <= (1usize << 40));
    {
        let mut p = w.store.resolve(w.key);
        if ghost {
            unsafe {
                buf_h::G_DATA = (off, sz, eos);
                buf_h::G_FRONT_PUTS = 0;
            }
            p.pending_send = buf_h::fake_nonempty();
        } else {
            let mut frame = frame::Data::new(StreamId::from(ID), SymBuf { off, rem: sz });
            frame.set_end_stream(eos);
            p.pending_send.push_back(&mut w.buffer, frame.into());
        }
        // scheduled (without `Queue::push`: re-scheduling is an unreachability stub here)
        p.is_pending_send = true;
        store_h::queue_set_single(&mut w.prio.pending_send, w.key);
    }
    let pre = sym_pre(&mut w, Some(sz));
    if sendable_only {
        kani::assume(sz == 0 || pre.a > 0);
    }
    let max_len: usize = kani::any();
    kani::assume(max_len >= 16_384 && max_len < (1 << 24));
    let out = w.prio.pop_frame(&mut w.buffer, &mut w.store, max_len, &mut w.counts);
    let q = post(&mut w);
    match &out {
        Some(Frame::Data(d)) => {
            let n = d.payload().remaining();
            let inner = d.payload().inner.get_ref();
            // C02.emit: never more than either window allows; zero-length only for an empty frame
            assert!(n as i64 <= if pre.w > 0 { pre.w as i64 } else { 0 }, "C02: DATA exceeds the stream window");
            assert!(n as i64 <= pre.cw as i64, "C02: DATA exceeds the connection window");
            assert!(n as i64 <= pre.a as i64, "DATA exceeds the capacity assigned to the stream");
            assert!(n <= max_len, "C12.max: DATA exceeds the peer's MAX_FRAME_SIZE");
            assert!(n > 0 || sz == 0, "C02.neg: zero-length DATA emitted for a non-empty frame");
            // exact amount
            let mut want = if sz < max_len { sz } else { max_len };
            if want as i64 > pre.a as i64 { want = pre.a as usize; }
            assert!(n == want, "C01.split: emitted length != min(size, max_frame, available)");
            // C01.split: the piece covers [off, off+n); the whole remainder is handed to the codec
            assert!(inner.off == off && inner.rem == sz, "C01.split: piece does not start where the frame starts");
            assert!(d.payload().end_of_stream == eos, "C01.split: END_STREAM intent lost");
            // END_STREAM on the wire only on the byte-final piece
            assert!(d.is_end_stream() == (eos && n == sz), "C01.split: END_STREAM flag on a non-final piece (or missing on the final one)");
            // ledgers
            assert!(q.w as i64 == pre.w as i64 - n as i64, "stream window not charged exactly n");
            assert!(q.cw as i64 == pre.cw as i64 - n as i64, "connection window not charged exactly n");
            assert!(q.a as i64 == pre.a as i64 - n as i64 && q.ca == pre.ca);
            assert!(q.buffered == sz - n && q.req == pre.req - n as u32, "S3: buffered/requested not reduced by n");
            assert_inv(&pre, &q);
            assert!(!in_flight_is_drop(&w.prio));
            if ghost {
                assert!(unsafe { buf_h::G_FRONT_PUTS } == 0, "emitted frame also put back (bytes duplicated)");
            }
        }
        Some(_) => panic!("pop_frame produced a frame kind that was never queued"),
        None => {
            // nothing may be emitted only if the frame is non-empty and unsendable
            assert!(sz > 0 && (pre.a == 0 || pre.w <= 0 || (pre.a as i64) > pre.w as i64), "sendable DATA not emitted");
            assert!(q.w == pre.w && q.cw == pre.cw && q.a == pre.a && q.buffered == pre.buffered, "state changed without emitting");
            let p = w.store.resolve(w.key);
            assert!(!p.pending_send.is_empty(), "blocked DATA frame lost");
            if ghost {
                assert!(unsafe { buf_h::G_FRONT_PUTS } == 1, "C01.order: blocked DATA frame not put back exactly once at the front");
            }
        }
    }
    kani::cover!(matches!(&out, Some(Frame::Data(d)) if d.payload().remaining() < sz), "split");
    kani::cover!(matches!(&out, Some(Frame::Data(d)) if d.payload().remaining() == sz && sz > 0), "whole");
    kani::cover!(out.is_none(), "blocked");
    kani::cover!(true, "end");
    std::mem::forget(out);
    forget(w);
}
pub fn c02_emit_pop_frame_data() { pop_frame_one_data(false) }
pub fn c02_emit_pop_frame_data_sendable() { pop_frame_one_data_regime(false, true) }
pub fn c02_emit_pop_frame_data_eos_sendable() { pop_frame_one_data_regime(true, true) }
pub fn c02_emit_pop_frame_data_eos() { pop_frame_one_data(true) }
pub fn c02_emit_pop_frame_data_ghost() { pop_frame_one_data_full(false, false, true) }
pub fn c02_emit_pop_frame_data_eos_ghost() { pop_frame_one_data_full(true, false, true) }

// ---------------------------------------------------------------------------
// reclaim_frame_inner / push_back_frame (C01.reclaim, C20.window)
// ---------------------------------------------------------------------------
/// The codec hands back a DATA frame whose `Take` window (n bytes of sz) was written.
/// mode 0: stream untouched meanwhile (in_flight = DataFrame(key));
/// mode 1: the stream's queue was cleared in the unlocked window (in_flight = Drop).
fn reclaim_case(mode: u8, queued_behind: bool) {
    reclaim_case_eos(mode, queued_behind, None)
}
fn reclaim_case_eos(mode: u8, queued_behind: bool, eos_fixed: Option<bool>) {
    let mut w = world(3);
    {
        let mut p = w.store.resolve(w.key);
        st_h::set_inner_open_streaming(&mut p.state);
    }
    let sz: usize = kani::any();
    let n: usize = kani::any();
    let off: usize = kani::any();
    kani::assume(sz as u64 <= MAXW as u64 && n <= sz && off <= (1usize << 40));
    let eos: bool = match eos_fixed { Some(e) => e, None => kani::any() };
    // what pop_frame produced: Take limited to n, END_STREAM cleared on a partial piece
    let mut d = frame::Data::new(StreamId::from(ID), Prioritized {
        inner: bytes::Buf::take(SymBuf { off, rem: sz }, n),
        end_of_stream: eos,
        stream: w.key,
    });
    d.set_end_stream(eos && n == sz);
    // the codec wrote the whole window
    d.payload_mut().inner.advance(n);
    if queued_behind {
        // another frame of the stream is already queued behind the in-flight one
        let mut p = w.store.resolve(w.key);
        let f2 = frame::Data::new(StreamId::from(ID), SymBuf { off: off + sz, rem: 7 });
        p.pending_send.push_back(&mut w.buffer, f2.into());
    }
    let pre = sym_pre(&mut w, None);
    match mode {
        0 => set_in_flight(&mut w.prio, Some(w.key)),
        _ => w.prio.in_flight_data_frame = InFlightData::Drop,
    }
    let r = w.prio.reclaim_frame_inner(&mut w.buffer, &mut w.store, d);
    assert!(in_flight_is_nothing(&w.prio), "in-flight marker not cleared");
    let q = post(&mut w);
    assert!(q.a == pre.a && q.ca == pre.ca && q.w == pre.w && q.cw == pre.cw && q.buffered == pre.buffered, "reclaim must not touch the ledgers");
    let mut p = w.store.resolve(w.key);
    if mode == 0 && n < sz {
        assert!(r, "unwritten tail not reported as reclaimed");
        // the tail is at the FRONT of the stream's queue, with END_STREAM restored
        match p.pending_send.pop_front(&mut w.buffer) {
            Some(Frame::Data(t)) => {
                assert!(t.payload().off == off + n && t.payload().rem == sz - n, "C01.reclaim: tail is not bytes [off+n, off+sz)");
                assert!(t.is_end_stream() == eos, "C01.reclaim: END_STREAM not restored on the tail");
                std::mem::forget(t);
            }
            _ => panic!("C01.reclaim: tail not pushed to the front of the stream's queue"),
        }
        if pre.a > 0 {
            assert!(p.is_pending_send, "Q2: stream with capacity and an unwritten tail not rescheduled");
        }
    } else {
        assert!(!r, "nothing to reclaim but reported as reclaimed");
        if queued_behind {
            match p.pending_send.pop_front(&mut w.buffer) {
                Some(Frame::Data(t)) => {
                    assert!(t.payload().off == off + sz, "queue disturbed although nothing was reclaimed");
                    std::mem::forget(t);
                }
                _ => panic!("queued frame lost"),
            }
        }
        assert!(p.pending_send.is_empty(), "C20.window: frame of a cleared stream re-queued / spurious frame");
    }
    kani::cover!(r, "tail_requeued");
    kani::cover!(!r && mode == 0, "fully_written");
    kani::cover!(true, "end");
    forget(w);
}
/// Ghost-deque form of the reclaim obligation (quick tier): `Deque::push_front` records the
/// put-back and checks it is exactly bytes [off+n, off+sz) with END_STREAM restored;
/// `push_back` is an unreachability stub (a tail appended behind later frames reorders bytes).
fn reclaim_tail_ghost(eos: bool) {
    let mut w = world(3);
    {
        let mut p = w.store.resolve(w.key);
        st_h::set_inner_open_streaming(&mut p.state);
    }
    let sz: usize = kani::any();
    let n: usize = kani::any();
    let off: usize = kani::any();
    kani::assume(sz as u64 <= MAXW as u64 && n <= sz && off <= (1usize << 40));
    let mut d = frame::Data::new(StreamId::from(ID), Prioritized {
        inner: bytes::Buf::take(SymBuf { off, rem: sz }, n),
        end_of_stream: eos,
        stream: w.key,
    });
    d.set_end_stream(eos && n == sz);
    d.payload_mut().inner.advance(n);
    unsafe {
        buf_h::G_DATA = (off + n, sz - n, eos);
        buf_h::G_FRONT_PUTS = 0;
    }
    let pre = sym_pre(&mut w, None);
    set_in_flight(&mut w.prio, Some(w.key));
    let r = w.prio.reclaim_frame_inner(&mut w.buffer, &mut w.store, d);
    assert!(in_flight_is_nothing(&w.prio), "in-flight marker not cleared");
    let q = post(&mut w);
    assert!(q.a == pre.a && q.ca == pre.ca && q.w == pre.w && q.cw == pre.cw && q.buffered == pre.buffered, "reclaim must not touch the ledgers");
    let p = w.store.resolve(w.key);
    let puts = unsafe { buf_h::G_FRONT_PUTS };
    if n < sz {
        assert!(r, "unwritten tail not reported as reclaimed");
        assert!(puts == 1, "C01.reclaim: unwritten tail not put back exactly once at the front of the stream's queue");
        if pre.a > 0 {
            assert!(p.is_pending_send, "Q2: stream with capacity and an unwritten tail not rescheduled");
        }
    } else {
        assert!(!r && puts == 0, "C01.reclaim: a fully written frame was re-queued (bytes duplicated)");
    }
    kani::cover!(r, "tail_requeued");
    kani::cover!(!r, "fully_written");
    kani::cover!(true, "end");
    forget(w);
}
pub fn c01_reclaim_tail_ghost() { reclaim_tail_ghost(false) }
pub fn c01_reclaim_tail_eos_ghost() { reclaim_tail_ghost(true) }
pub fn c01_reclaim_tail() { reclaim_case_eos(0, false, Some(false)) }
pub fn c01_reclaim_tail_eos() { reclaim_case_eos(0, false, Some(true)) }
pub fn c01_reclaim_tail_queue_behind() { reclaim_case(0, true) }
pub fn c20_window_reclaim_after_clear() { reclaim_case(1, false) }

/// reclaim without a frame in flight is a precondition violation (panics, never corrupts)
pub fn c20_window_reclaim_nothing_in_flight() {
    let mut w = world(3);
    let d = frame::Data::new(StreamId::from(ID), Prioritized {
        inner: bytes::Buf::take(SymBuf { off: 0, rem: 10 }, 4),
        end_of_stream: false,
        stream: w.key,
    });
    set_in_flight(&mut w.prio, None);
    kani::cover!(true, "end");
    let _ = w.prio.reclaim_frame_inner(&mut w.buffer, &mut w.store, d);
    assert!(false, "MARK reclaim accepted a frame although none was in flight");
}

/// clear_queue in the unlocked flush window marks the in-flight frame as dropped
/// (so reclaim will not resurrect it), empties the queue and zeroes the counters.
pub fn c20_window_clear_queue_marks_drop() {
    let mut w = world(3);
    let in_flight: bool = kani::any();
    {
        let mut p = w.store.resolve(w.key);
        let f1 = frame::Data::new(StreamId::from(ID), SymBuf { off: 0, rem: 5 });
        p.pending_send.push_back(&mut w.buffer, f1.into());
        let f2 = frame::Reset::new(StreamId::from(ID), Reason::CANCEL);
        p.pending_send.push_back(&mut w.buffer, f2.into());
    }
    let _pre = sym_pre(&mut w, None);
    set_in_flight(&mut w.prio, if in_flight { Some(w.key) } else { None });
    {
        let mut p = w.store.resolve(w.key);
        w.prio.clear_queue(&mut w.buffer, &mut p);
    }
    let p = w.store.resolve(w.key);
    assert!(p.pending_send.is_empty() && p.buffered_send_data == 0 && p.requested_send_capacity == 0);
    assert!(buf_h::slab_len(&w.buffer) == 0, "frames leaked in the send buffer");
    if in_flight {
        assert!(in_flight_is_drop(&w.prio), "C20.window: in-flight DATA of a cleared stream would be re-queued on reclaim");
    } else {
        assert!(in_flight_is_nothing(&w.prio));
    }
    kani::cover!(in_flight, "in_flight");
    kani::cover!(true, "end");
    forget(w);
}

// ---------------------------------------------------------------------------
// C16.reach through the real redistribution loop (`assign_connection_capacity`), for the
// regime in which the waiting stream can be satisfied completely (so it is not re-queued)
// ---------------------------------------------------------------------------
fn queue_target_for_capacity(w: &mut World) {
    let mut p = w.store.resolve(w.key);
    p.is_pending_send_capacity = true;
    store_h::queue_set_single(&mut w.prio.pending_capacity, w.key);
}

/// A stream that waits in `pending_capacity` lowers its own reservation below what it
/// holds: exactly the excess returns to the connection, the stream keeps exactly its new
/// request and is not handed back what it just released.
pub fn c16_reach_lower_while_queued() {
    let mut w = world(3);
    {
        let mut p = w.store.resolve(w.key);
        st_h::set_inner_open_streaming(&mut p.state);
    }
    queue_target_for_capacity(&mut w);
    let pre = sym_pre(&mut w, None);
    let cap: WindowSize = kani::any();
    let want = cap as u64 + pre.buffered as u64;
    kani::assume(want < pre.a as u64); // strictly below the current assignment
    {
        let mut p = w.store.resolve(w.key);
        w.prio.reserve_capacity(cap, &mut p, &mut w.counts);
    }
    let q = post(&mut w);
    assert_inv(&pre, &q);
    assert!(q.req as u64 == want, "requested capacity after lowering");
    assert!(q.a as u64 == want, "C16: a stream that lowered its reservation still holds more than it requests");
    assert!(q.ca as i64 == pre.ca as i64 + (pre.a as i64 - want as i64), "C16.reach: released capacity did not return to the connection (it must be available to other waiters)");
    kani::cover!(true, "end");
    forget(w);
}

/// Connection WINDOW_UPDATE with the target waiting and enough capacity for all it wants.
pub fn c16_reach_conn_update_satisfies_waiter() {
    let mut w = world(3);
    {
        let mut p = w.store.resolve(w.key);
        st_h::set_inner_open_streaming(&mut p.state);
    }
    queue_target_for_capacity(&mut w);
    let pre = sym_pre(&mut w, None);
    let inc: u32 = kani::any();
    kani::assume(inc >= 1 && inc as i64 <= MAXW && pre.cw as i64 + inc as i64 <= MAXW);
    let wanted = pre.req as i64 - pre.a as i64;
    let room = if pre.w > 0 { pre.w as i64 - pre.a as i64 } else { 0 };
    let give = if wanted < room { wanted } else { room };
    kani::assume(give >= 0 && pre.ca as i64 + inc as i64 >= give); // enough for everything it can take
    // Q1 of a queued stream that can take nothing (window exhausted) is vacuous: exclude
    let r = w.prio.recv_connection_window_update(inc, &mut w.store, &mut w.counts);
    assert!(r.is_ok());
    let q = post(&mut w);
    assert_inv(&pre, &q);
    assert!(q.cw as i64 == pre.cw as i64 + inc as i64);
    assert!(q.a as i64 == pre.a as i64 + give, "C16.reach: new connection capacity did not reach the waiting stream in full");
    let p = w.store.resolve(w.key);
    assert!(!p.is_pending_send_capacity, "satisfied stream still queued");
    kani::cover!(give > 0, "granted");
    kani::cover!(true, "end");
    forget(w);
}

// ---------------------------------------------------------------------------
// C05.admit: a stream waiting for a concurrency slot
// ---------------------------------------------------------------------------
/// `pop_pending_open` for a queued stream in any state shape (a request may have been
/// reset or dropped while it waited: its HEADERS + RST_STREAM still go on the wire, so it
/// still occupies a slot until they do): admitted only when a slot is free, and every
/// admitted stream is counted.
fn admit_pending_open(lo: u8, hi: u8) {
    let c = cfg();
    let mut prio = Prioritize::new(&c);
    let mut counts = Counts::new(peer::Dyn::Client, &c);
    let mut store = Store::new();
    let id = StreamId::from(ID);
    let mut stream = Stream::new(id, 0, 0);
    stream.state = st_h::any_state_in(id, lo, hi);
    stream.ref_count = 1;
    stream.is_pending_open = true;
    let key = store_h::insert_slab_only(&mut store, stream);
    store_h::queue_set_single(&mut prio.pending_open, key);
    let num: usize = kani::any();
    let max: usize = kani::any();
    counts_h::set_counts(&mut counts, num, max, 0, usize::MAX);
    let waiting: bool = kani::any();
    if waiting {
        let wk = cw::waker(0);
        let cx = Context::from_waker(&wk);
        store.resolve(key).wait_send(&cx);
    }
    let w0 = cw::wakes(0);
    let popped = prio.pop_pending_open(&mut store, &mut counts).map(|p| p.key());
    let (ns, _) = counts_h::get_counts(&counts);
    let p = store.resolve(key);
    match popped {
        Some(k) => {
            assert!(k == key);
            assert!(num < max, "C05.admit: stream admitted although the peer's limit was reached");
            assert!(p.is_counted && ns == num + 1, "C05.admit: admitted stream does not hold a slot (the next queued stream would be opened too)");
            assert!(!p.is_pending_open);
            if waiting {
                assert!(cw::wakes(0) == w0 + 1, "C05.ready: the waiter of an admitted stream was not woken");
            }
        }
        None => {
            assert!(num >= max, "free slot but the queued stream was not admitted");
            assert!(p.is_pending_open && !p.is_counted && ns == num, "refused admission changed state");
        }
    }
    kani::cover!(popped.is_some(), "admitted");
    kani::cover!(popped.is_none(), "waits");
    kani::cover!(true, "end");
    std::mem::forget(store);
    std::mem::forget(counts);
    std::mem::forget(prio);
}
pub fn c05_admit_pending_open_live() { admit_pending_open(0, 5) }
pub fn c05_admit_pending_open_closed() { admit_pending_open(6, 11) }

// ---------------------------------------------------------------------------
// C04 / C05: nothing is taken out of a queue while the codec cannot accept a frame
// ---------------------------------------------------------------------------
pub(crate) fn stub_pop_frame_unreachable<B>(_p: &mut Prioritize, _b: &mut Buffer<Frame<B>>, _s: &mut Store, _m: usize, _c: &mut Counts) -> Option<Frame<Prioritized<B>>> {
    panic!("UNREACHABLE-STUB Prioritize::pop_frame")
}

/// `buffer_pending` with a codec that has no room (a frame is still being written): it
/// must return CodecFull *without* taking a waiting stream out of `pending_open` - the
/// stream's HEADERS could not be written in the same critical section, so a reset (or
/// another stream's open) in the unlocked window would see a half-opened stream: RST on an
/// idle stream, or stream ids opened out of order.
pub fn c04_buffer_pending_codec_full() {
    use crate::codec::verif_h::{codec_buffered, codec_set_blocked, mk_codec, Mock, EXP};
    let c = cfg();
    let mut prio = Prioritize::new(&c);
    let mut counts = Counts::new(peer::Dyn::Client, &c);
    let mut store = Store::new();
    let mut buffer: Buffer<F> = buf_h::with_capacity(4);
    let id = StreamId::from(ID);
    let mut stream = Stream::new(id, 0, 0);
    st_h::set_inner_open_streaming(&mut stream.state);
    stream.ref_count = 1;
    stream.is_pending_open = true;
    let key = store_h::insert_slab_only(&mut store, stream);
    store_h::queue_set_single(&mut prio.pending_open, key);
    let num: usize = kani::any();
    let max: usize = kani::any();
    counts_h::set_counts(&mut counts, num, max, 0, usize::MAX);
    let mut codec = mk_codec::<Prioritized<SymBuf>>(Mock::new([0; EXP], 0, 0));
    codec_set_blocked(&mut codec, true);
    let r = prio.buffer_pending(&mut buffer, &mut store, &mut counts, &mut codec);
    assert!(matches!(r, Ok(BufferStatus::CodecFull)), "a full codec must report CodecFull");
    let p = store.resolve(key);
    assert!(p.is_pending_open && !p.is_pending_send && !p.is_counted,
        "C04: stream taken out of pending_open although its HEADERS cannot be written now");
    assert!(!pending_open_empty(&prio) && pending_send_empty(&prio));
    assert!(counts_h::get_counts(&counts).0 == num);
    assert!(codec_buffered(&codec).is_empty());
    kani::cover!(num < max, "slot_free");
    kani::cover!(true, "end");
    std::mem::forget(r);
    std::mem::forget(codec);
    std::mem::forget(store);
    std::mem::forget(counts);
    std::mem::forget(prio);
}

/// pop_frame, *blocked* regime: the stream was scheduled but holds no capacity (window
/// exhausted since it was scheduled) and two DATA frames are queued.  Nothing may be
/// emitted, and the frames must stay in submission order (the popped head goes back to
/// the FRONT): otherwise later frames - or END_STREAM - overtake unsent bytes (C01).
pub fn c01_pop_frame_blocked_keeps_order() {
    let mut w = world(4); // half-closed local: END_STREAM already queued
    let sz1: usize = kani::any();
    let sz2: usize = kani::any();
    kani::assume(sz1 >= 1 && sz1 as u64 <= MAXW as u64 && sz2 as u64 <= MAXW as u64);
    {
        let mut p = w.store.resolve(w.key);
        let f1 = frame::Data::new(StreamId::from(ID), SymBuf { off: 0, rem: sz1 });
        p.pending_send.push_back(&mut w.buffer, f1.into());
        let mut f2 = frame::Data::new(StreamId::from(ID), SymBuf { off: sz1, rem: sz2 });
        f2.set_end_stream(true);
        p.pending_send.push_back(&mut w.buffer, f2.into());
        p.is_pending_send = true;
        store_h::queue_set_single(&mut w.prio.pending_send, w.key);
    }
    let pre = sym_pre(&mut w, Some(sz1 + sz2));
    kani::assume(pre.a == 0);
    let max_len: usize = kani::any();
    kani::assume(max_len >= 16_384 && max_len < (1 << 24));
    let out = w.prio.pop_frame(&mut w.buffer, &mut w.store, max_len, &mut w.counts);
    assert!(out.is_none(), "DATA emitted without any assigned capacity");
    let q = post(&mut w);
    assert!(q.w == pre.w && q.cw == pre.cw && q.a == 0 && q.buffered == pre.buffered);
    let mut p = w.store.resolve(w.key);
    match p.pending_send.pop_front(&mut w.buffer) {
        Some(Frame::Data(d)) => {
            assert!(d.payload().off == 0 && d.payload().rem == sz1 && !d.is_end_stream(),
                "C01.order: a blocked DATA frame lost its place at the head of the stream's queue (later bytes / END_STREAM would overtake it)");
            std::mem::forget(d);
        }
        _ => panic!("blocked DATA frame lost"),
    }
    match p.pending_send.pop_front(&mut w.buffer) {
        Some(Frame::Data(d)) => {
            assert!(d.payload().off == sz1 && d.payload().rem == sz2 && d.is_end_stream(), "second frame changed");
            std::mem::forget(d);
        }
        _ => panic!("second frame lost"),
    }
    assert!(p.pending_send.is_empty());
    kani::cover!(true, "end");
    std::mem::forget(out);
    forget(w);
}

/// C17 isolation in the unlocked flush window: clearing the queue of stream A (reset)
/// while a DATA frame of a *different* stream B is being written must not mark B's frame
/// as dropped - B's unwritten tail has to be re-queued by reclaim.
pub fn c17_isolate_clear_queue_other_stream_in_flight() {
    let mut w = world(3);
    // a second record, B, whose frame is in flight
    let kb = store_h::insert_slab_only(&mut w.store, Stream::new(StreamId::from(3), 0, 0));
    let _pre = sym_pre(&mut w, None);
    set_in_flight(&mut w.prio, Some(kb));
    {
        let mut p = w.store.resolve(w.key);
        w.prio.clear_queue(&mut w.buffer, &mut p);
    }
    assert!(w.prio.in_flight_data_frame == InFlightData::DataFrame(kb),
        "C17: resetting one stream marked another stream's in-flight DATA frame as dropped (its unwritten tail is lost)");
    let p = w.store.resolve(w.key);
    assert!(p.buffered_send_data == 0 && p.requested_send_capacity == 0);
    kani::cover!(true, "end");
    forget(w);
}

// ---------------------------------------------------------------------------
// pop_frame on an implicitly cancelled stream (Closed(ScheduledLibraryReset)):
// the RST_STREAM is owed and must follow whatever is still queued (C04, C05, C17)
// ---------------------------------------------------------------------------
/// `with_frame == false`: nothing queued any more - pop_frame emits RST_STREAM with the
/// scheduled reason, the stream becomes Reset(Library), gives its concurrency slot back and
/// is not scheduled again.
/// `with_frame == true`: one non-DATA frame is still queued in front: it
/// is emitted first and the stream STAYS scheduled - independent of the reset-expiry
/// bookkeeping - so that the RST_STREAM follows on the next call; the slot stays taken.
fn pop_frame_scheduled_reset(with_frame: bool) {
    let mut w = world(9);
    let reason = {
        let p = w.store.resolve(w.key);
        match p.state.get_scheduled_reset() {
            Some(r) => r,
            None => panic!("shape 9 is the scheduled-reset state"),
        }
    };
    {
        let mut p = w.store.resolve(w.key);
        if with_frame {
            // queue content is modelled (stub `one_control_frame`): the deque only claims to hold one
            // frame; `Deque::pop_front` hands out a non-DATA frame that takes the generic arm
            p.pending_send = buf_h::fake_nonempty();
        }
        p.is_pending_send = true;
        store_h::queue_set_single(&mut w.prio.pending_send, w.key);
        // not (or no longer) in the reset-expiry queue: e.g. that queue was full when the
        // stream was cancelled (max_concurrent_reset_streams reached)
        assert!(!p.is_pending_reset_expiration());
    }
    let pre = sym_pre(&mut w, Some(0));
    let n_send0 = counts_h::get_counts(&w.counts).0;
    let out = w.prio.pop_frame(&mut w.buffer, &mut w.store, 16_384, &mut w.counts);
    let q = post(&mut w);
    let p = w.store.resolve(w.key);
    if with_frame {
        match &out {
            Some(Frame::WindowUpdate(h)) => assert!(h.stream_id() == StreamId::from(ID)),
            _ => panic!("the queued frame was not emitted first"),
        }
        assert!(p.state.is_scheduled_reset(), "scheduled reset forgotten");
        assert!(p.is_pending_send && store_h::queue_head(&w.prio.pending_send) == Some(w.key),
            "C05/C17: a cancelled stream whose last queued frame was just sent is no longer scheduled - its RST_STREAM is never sent and its slot is never released");
        assert!(counts_h::get_counts(&w.counts).0 == n_send0, "slot released before the RST_STREAM went out");
    } else {
        match &out {
            Some(Frame::Reset(r)) => {
                assert!(r.stream_id() == StreamId::from(ID) && r.reason() == reason, "C17: RST_STREAM with another id/reason than scheduled");
            }
            _ => panic!("C04/C17: the scheduled RST_STREAM was not emitted"),
        }
        assert!(st_h::shape(&p.state) == 7, "state after the RST_STREAM went out is not Reset");
        assert!(!p.state.is_scheduled_reset());
        assert!(!p.is_pending_send && store_h::queue_head(&w.prio.pending_send).is_none());
        assert!(counts_h::get_counts(&w.counts).0 == n_send0 - 1 && !p.is_counted, "C05: concurrency slot not released when the RST_STREAM went out");
    }
    assert!(q.w == pre.w && q.cw == pre.cw && q.a == pre.a && q.ca == pre.ca, "flow-control ledgers changed by a non-DATA emission");
    kani::cover!(true, "end");
    std::mem::forget(out);
    forget(w);
}
pub fn c05_pop_frame_scheduled_reset_emits_rst() { pop_frame_scheduled_reset(false) }
pub fn c05_pop_frame_scheduled_reset_frame_first() { pop_frame_scheduled_reset(true) }

/// pop_frame, *blocked* regime (C01.order): the stream was scheduled but holds no
/// capacity any more (window exhausted / shrunk since it was scheduled) and a non-empty
/// DATA frame is at the head of its queue.  Nothing is emitted, no ledger moves, and the
/// frame goes back - unchanged - to the FRONT of the stream's queue, exactly once.
/// The stream's deque is a ghost (see buffer.rs `stub_pop_front_one_data_frame`).
fn pop_frame_blocked_puts_back(eos: bool) {
    let mut w = world(if eos { 4 } else { 3 });
    let sz: usize = kani::any();
    kani::assume(sz >= 1 && sz as u64 <= MAXW as u64);
    let off: usize = kani::any();
    kani::assume(off <= (1usize << 40));
    unsafe {
        buf_h::G_DATA = (off, sz, eos);
        buf_h::G_FRONT_PUTS = 0;
    }
    {
        let mut p = w.store.resolve(w.key);
        if !eos {
            st_h::set_inner_open_streaming(&mut p.state);
        }
        p.pending_send = buf_h::fake_nonempty();
        p.is_pending_send = true;
        store_h::queue_set_single(&mut w.prio.pending_send, w.key);
    }
    let pre = sym_pre(&mut w, Some(sz));
    kani::assume(pre.a == 0);
    let max_len: usize = kani::any();
    kani::assume(max_len >= 16_384 && max_len < (1 << 24));
    let out = w.prio.pop_frame(&mut w.buffer, &mut w.store, max_len, &mut w.counts);
    assert!(out.is_none(), "C02: DATA emitted without any assigned capacity");
    assert!(unsafe { buf_h::G_FRONT_PUTS } == 1, "C01.order: blocked DATA frame not put back (lost) or put back twice");
    let q = post(&mut w);
    assert!(q.w == pre.w && q.cw == pre.cw && q.a == 0 && q.ca == pre.ca && q.buffered == pre.buffered && q.req == pre.req,
        "ledgers moved although nothing was emitted");
    let p = w.store.resolve(w.key);
    assert!(!p.pending_send.is_empty());
    kani::cover!(true, "end");
    std::mem::forget(out);
    forget(w);
}
pub fn c01_pop_frame_blocked_puts_back_front() { pop_frame_blocked_puts_back(false) }
pub fn c01_pop_frame_blocked_puts_back_front_eos() { pop_frame_blocked_puts_back(true) }

/// NOT REGISTERED (measured: 40 k VCCs, symex 18 min, out of memory at 14 GB - the discard arm runs
/// clear_queue + reclaim_all_capacity + a re-queue and a second loop iteration).
/// pop_frame, *discard* arm (C17/C04/C16): a stream that was cancelled with an error code
/// (scheduled reset, reason != NO_ERROR) still has a DATA frame queued.  The DATA is
/// discarded, its capacity goes back to the connection, and the same call emits the
/// RST_STREAM with the scheduled code (second loop iteration); the slot is released.
/// With NO_ERROR the DATA must still be sent (RFC 9113 8.1: NO_ERROR only after a complete
/// response).  Stream's deque: ghost (one DATA frame).
fn pop_frame_cancelled_with_data(no_error: bool) {
    let mut w = world(9);
    let reason = {
        let mut p = w.store.resolve(w.key);
        if no_error {
            st_h::set_scheduled_reset(&mut p.state, Reason::NO_ERROR);
        }
        match p.state.get_scheduled_reset() {
            Some(r) => r,
            None => panic!("shape 9 is the scheduled-reset state"),
        }
    };
    kani::assume(no_error || reason != Reason::NO_ERROR);
    let sz: usize = kani::any();
    kani::assume(sz >= 1 && sz as u64 <= MAXW as u64);
    unsafe {
        buf_h::G_DATA = (0, sz, true);
        buf_h::G_FRONT_PUTS = 0;
    }
    {
        let mut p = w.store.resolve(w.key);
        p.pending_send = buf_h::fake_nonempty();
        p.is_pending_send = true;
        store_h::queue_set_single(&mut w.prio.pending_send, w.key);
    }
    let pre = sym_pre(&mut w, Some(sz));
    if no_error {
        kani::assume(pre.a > 0);
    }
    let n_send0 = counts_h::get_counts(&w.counts).0;
    let out = w.prio.pop_frame(&mut w.buffer, &mut w.store, 16_384, &mut w.counts);
    let q = post(&mut w);
    let p = w.store.resolve(w.key);
    if no_error {
        match &out {
            Some(Frame::Data(d)) => assert!(d.payload().remaining() > 0),
            _ => panic!("C04: DATA of a stream cancelled with NO_ERROR was not sent"),
        }
    } else {
        match &out {
            Some(Frame::Reset(r)) => assert!(r.stream_id() == StreamId::from(ID) && r.reason() == reason, "C17: RST_STREAM with another id/reason than scheduled"),
            Some(_) => panic!("C17: DATA of a cancelled stream sent instead of the RST_STREAM"),
            None => panic!("C17: nothing emitted for a cancelled stream"),
        }
        assert!(q.buffered == 0 && q.a == 0, "discarded DATA still accounted / capacity kept by a reset stream");
        assert!(q.cw == pre.cw && q.w == pre.w, "windows charged although no DATA was emitted");
        assert!(q.ca as i64 == pre.ca as i64 + pre.a as i64 && q.ca as i64 + pre.others == q.cw as i64, "C16.total: capacity of the discarded DATA leaked");
        assert!(st_h::shape(&p.state) == 7 && !p.is_pending_send);
        assert!(counts_h::get_counts(&w.counts).0 == n_send0 - 1, "C05: slot not released");
    }
    kani::cover!(true, "end");
    std::mem::forget(out);
    forget(w);
}
pub fn c17_pop_frame_cancelled_discards_data() { pop_frame_cancelled_with_data(false) }
pub fn c17_pop_frame_cancelled_no_error_sends_data() { pop_frame_cancelled_with_data(true) }
