// harness bodies for h2 src/proto/streams/flow_control.rs (compiled in-crate as `verif_h`, feature "verif")
//
// C02.ledger / C03.threshold: the window ledger arithmetic, for every i32 pre-state
// and every u31 argument.
use super::*;

/// write both ledger fields in place (private fields of `FlowControl`)
pub(crate) fn set(fc: &mut FlowControl, window_size: i32, available: i32) {
    fc.window_size = Window(window_size);
    fc.available = Window(available);
}
pub(crate) fn get(fc: &FlowControl) -> (i32, i32) {
    (fc.window_size.0, fc.available.0)
}
pub(crate) fn win(w: Window) -> i32 {
    w.0
}

const MAXW: i64 = MAX_WINDOW_SIZE as i64;

fn any_fc() -> (FlowControl, i32, i32) {
    let mut fc = FlowControl::new();
    let w: i32 = kani::any();
    let a: i32 = kani::any();
    set(&mut fc, w, a);
    (fc, w, a)
}

/// argument precondition shared by all callers (validated at frame load: a
/// WINDOW_UPDATE increment / SETTINGS window is at most 2^31-1; see C08/C09).
fn any_u31() -> u32 {
    let sz: u32 = kani::any();
    kani::assume(sz <= MAX_WINDOW_SIZE);
    sz
}

pub fn c02_ledger_inc_window() {
    let (mut fc, w, a) = any_fc();
    let sz = any_u31();
    let r = fc.inc_window(sz);
    let exact = w as i64 + sz as i64;
    match r {
        Ok(()) => {
            assert!(exact <= MAXW, "inc_window accepted a window above 2^31-1");
            assert!(fc.window_size.0 as i64 == exact, "inc_window: window != old + increment");
        }
        Err(e) => {
            assert!(exact > MAXW, "inc_window rejected a legal increment");
            assert!(e == Reason::FLOW_CONTROL_ERROR);
            assert!(fc.window_size.0 == w, "inc_window changed the window on Err");
        }
    }
    assert!(fc.available.0 == a, "inc_window touched available");
    kani::cover!(r.is_ok() && w < 0, "ok_from_negative");
    kani::cover!(r.is_err(), "err");
    kani::cover!(true, "end");
}

pub fn c02_ledger_dec_send_window() {
    let (mut fc, w, a) = any_fc();
    let sz = any_u31();
    let r = fc.dec_send_window(sz);
    let exact = w as i64 - sz as i64;
    match r {
        Ok(()) => {
            assert!(fc.window_size.0 as i64 == exact, "dec_send_window: window != old - sz");
        }
        Err(e) => {
            assert!(exact < i32::MIN as i64, "dec_send_window rejected a representable result");
            assert!(e == Reason::FLOW_CONTROL_ERROR);
            assert!(fc.window_size.0 == w);
        }
    }
    assert!(fc.available.0 == a, "dec_send_window touched available");
    kani::cover!(r.is_ok() && fc.window_size.0 < 0, "ok_negative");
    kani::cover!(r.is_err(), "err");
    kani::cover!(true, "end");
}

pub fn c03_ledger_dec_recv_window() {
    let (mut fc, w, a) = any_fc();
    let sz = any_u31();
    let r = fc.dec_recv_window(sz);
    if r.is_ok() {
        assert!(fc.window_size.0 as i64 == w as i64 - sz as i64);
        assert!(fc.available.0 as i64 == a as i64 - sz as i64);
    } else {
        assert!((w as i64 - sz as i64) < i32::MIN as i64 || (a as i64 - sz as i64) < i32::MIN as i64);
    }
    kani::cover!(r.is_ok(), "ok");
    kani::cover!(r.is_err(), "err");
    kani::cover!(true, "end");
}

pub fn c02_ledger_send_data() {
    let (mut fc, w, a) = any_fc();
    let sz = any_u31();
    // caller contract (Prioritize::pop_frame, Recv::recv_data): the frame fits the window;
    // zero-length frames are exempt from flow control and legal on a zero/negative window
    kani::assume(sz == 0 || w as i64 >= sz as i64);
    let r = fc.send_data(sz);
    match r {
        Ok(()) => {
            assert!(fc.window_size.0 as i64 == w as i64 - sz as i64, "send_data: window != old - sz");
            assert!(fc.available.0 as i64 == a as i64 - sz as i64, "send_data: available != old - sz");
            assert!(fc.window_size.0 >= 0 || sz == 0, "send_data drove the window negative");
        }
        Err(_) => {
            // only an `available` underflow below i32::MIN can fail
            assert!((a as i64 - sz as i64) < i32::MIN as i64);
        }
    }
    kani::cover!(r.is_ok() && sz > 0, "sent");
    kani::cover!(r.is_ok() && sz == 0 && w < 0, "zero_on_negative_window");
    kani::cover!(true, "end");
}

pub fn c02_ledger_assign_claim() {
    let (mut fc, w, a) = any_fc();
    let sz = any_u31();
    if kani::any() {
        let r = fc.assign_capacity(sz);
        let exact = a as i64 + sz as i64;
        if r.is_ok() {
            assert!(fc.available.0 as i64 == exact);
        } else {
            assert!(exact > i32::MAX as i64);
            assert!(fc.available.0 == a);
        }
        kani::cover!(r.is_ok(), "assign_ok");
        kani::cover!(r.is_err(), "assign_err");
    } else {
        let r = fc.claim_capacity(sz);
        let exact = a as i64 - sz as i64;
        if r.is_ok() {
            assert!(fc.available.0 as i64 == exact);
        } else {
            assert!(exact < i32::MIN as i64);
            assert!(fc.available.0 == a);
        }
        kani::cover!(r.is_ok(), "claim_ok");
        kani::cover!(r.is_err(), "claim_err");
    }
    assert!(fc.window_size.0 == w, "assign/claim touched window_size");
    kani::cover!(true, "end");
}

/// `Window::{add,increase_by,decrease_by}` and the comparison helpers.
pub fn c02_ledger_window_ops() {
    let v: i32 = kani::any();
    let sz = any_u31();
    let mut x = Window(v);
    match x.add(sz) {
        Ok(y) => assert!(y.0 as i64 == v as i64 + sz as i64),
        Err(_) => assert!(v as i64 + sz as i64 > i32::MAX as i64),
    }
    assert!(x.0 == v);
    let r = x.decrease_by(sz);
    if r.is_ok() {
        assert!(x.0 as i64 == v as i64 - sz as i64);
    } else {
        assert!(x.0 == v);
    }
    let y = Window(v);
    assert!(y.as_size() as i64 == if v < 0 { 0 } else { v as i64 });
    let u: usize = kani::any();
    assert!((y == u) == (v >= 0 && v as usize == u));
    assert!((y < u) == (v < 0 || (v as usize) < u));
    assert!((y > u) == (v >= 0 && (v as usize) > u));
    kani::cover!(true, "end");
}

pub fn c02_ledger_has_unavailable() {
    let (fc, w, a) = any_fc();
    assert!(fc.has_unavailable() == (w >= 0 && w > a));
    assert!(fc.window_size() as i64 == if w < 0 { 0 } else { w as i64 });
    kani::cover!(fc.has_unavailable(), "true");
    kani::cover!(true, "end");
}

/// C03.threshold: the WINDOW_UPDATE trigger.  Reference: an update of
/// `available - window` is owed when that difference is positive and at least
/// half the window the peer still sees (threshold computed as in the docs:
/// window / 2, truncating toward zero).
pub fn c03_threshold_unclaimed() {
    let (fc, w, a) = any_fc();
    // pre-states admitted by R2/R3: both fields within [-2^31+1, 2^31-1] and the
    // difference representable (available <= configured target <= 2^31-1,
    // window >= -(2^31-1)): the ledger never stores anything else (C03.data/release).
    kani::assume(w > i32::MIN && a > i32::MIN);
    kani::assume(a as i64 - w as i64 <= MAXW);
    let r = fc.unclaimed_capacity();
    let diff = a as i64 - w as i64;
    let thr = (w / 2) as i64;
    match r {
        Some(u) => {
            assert!(u as i64 == diff, "increment != available - window");
            assert!(diff > 0, "non-positive increment");
            assert!(diff >= thr, "update below threshold");
            assert!(u <= MAX_WINDOW_SIZE);
        }
        None => {
            assert!(diff <= 0 || diff < thr, "owed update suppressed");
        }
    }
    kani::cover!(r.is_some() && w < 0, "some_negative_window");
    kani::cover!(r.is_none() && diff > 0, "below_threshold");
    kani::cover!(true, "end");
}

/// C02 runtime guard: `send_data` with more than the window panics on every path - the
/// ledger itself refuses to record an emission that exceeds the peer's credit (this is
/// what turns a wrong length in `Prioritize::pop_frame`, which is not decidable here,
/// into a panic instead of a flow-control violation on the wire).
pub fn c02_ledger_send_data_guard() {
    let (mut fc, w, _a) = any_fc();
    let sz = any_u31();
    kani::assume(sz > 0 && (w as i64) < sz as i64);
    kani::cover!(true, "end");
    let _ = fc.send_data(sz);
    assert!(false, "MARK send_data recorded an emission beyond the window");
}
