// harness bodies for h2 src/proto/streams/stream.rs (compiled in-crate as `verif_h`, feature "verif")
