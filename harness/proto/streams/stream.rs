// harness bodies for h2 src/proto/streams/stream.rs (compiled in-crate as `verif_h`, feature "verif")
use super::*;

/// C13.len: content-length bookkeeping over a sequence of <= 3 DATA payload lengths
/// against a declared length (every u64): END_STREAM is clean iff the sum equals the
/// declaration; an overshoot is rejected at the offending frame; HEAD responses admit
/// only empty DATA; without a declaration everything is accepted.
pub fn c13_len_content_length_sequence() {
    let mut s = Stream::new(StreamId::from(1), 0, 0);
    let kind: u8 = kani::any();
    kani::assume(kind < 3);
    let declared: u64 = kani::any();
    s.content_length = match kind {
        0 => ContentLength::Omitted,
        1 => ContentLength::Head,
        _ => ContentLength::Remaining(declared),
    };
    let lens: [usize; 3] = kani::any();
    let k: usize = kani::any();
    kani::assume(k <= 3);
    let mut sum: u128 = 0;
    let mut failed = false;
    let mut i = 0;
    while i < 3 {
        if i < k && !failed {
            kani::assume(lens[i] <= (1usize << 24));
            let r = s.dec_content_length(lens[i]);
            sum += lens[i] as u128;
            let want_err = match kind {
                0 => false,
                1 => lens[i] != 0,
                _ => sum > declared as u128,
            };
            assert!(r.is_err() == want_err, "C13.len: DATA beyond the declared content-length not rejected at the offending frame (or legal DATA rejected)");
            if r.is_err() {
                failed = true;
            }
        }
        i += 1;
    }
    if !failed {
        let end = s.ensure_content_length_zero();
        let want_ok = kind != 2 || sum == declared as u128;
        assert!(end.is_ok() == want_ok, "C13.len: END_STREAM accepted although the body is shorter than content-length (or a complete body rejected)");
    }
    kani::cover!(!failed && kind == 2 && k == 3, "three_frames_exact_or_short");
    kani::cover!(failed && kind == 2, "overshoot");
    kani::cover!(true, "end");
    std::mem::forget(s);
}

/// Unreachability stub for *re-queueing* a stream for connection capacity: popping
/// (`set_queued(false)`) works, pushing (`set_queued(true)`) panics.  Used in queries whose
/// pre-state guarantees that the popped stream gets everything it wants, so correct code
/// never re-queues it; it also keeps the queue head concrete for the loop's next `pop`.
pub(crate) fn stub_capacity_requeue_unreachable(stream: &mut Stream, val: bool) {
    if val {
        panic!("UNREACHABLE-STUB stream re-queued in pending_capacity");
    }
    stream.is_pending_send_capacity = false;
}

/// same for the send queue (`pending_send`): re-scheduling panics, popping works
pub(crate) fn stub_send_requeue_unreachable(stream: &mut Stream, val: bool) {
    if val {
        panic!("UNREACHABLE-STUB stream re-queued in pending_send");
    }
    stream.is_pending_send = false;
}

pub(crate) fn stub_stream_send_data_unreachable(_s: &mut Stream, _len: WindowSize, _max: usize) {
    panic!("UNREACHABLE-STUB Stream::send_data")
}

/// window-update queue: re-queueing panics, popping works (see the capacity-queue stub)
pub(crate) fn stub_window_update_requeue_unreachable(stream: &mut Stream, val: bool) {
    if val {
        panic!("UNREACHABLE-STUB stream re-queued in pending_window_updates");
    }
    stream.is_pending_window_update = false;
}
