// harness bodies for h2 src/proto/streams/buffer.rs
use super::*;

/// A `Deque` that only *claims* to be non-empty (for functions that look at
/// `is_empty()` and never dereference the queue, e.g. `Counts::transition_after`).
pub(crate) fn fake_nonempty() -> Deque {
    Deque { indices: Some(Indices { head: 0, tail: 0 }) }
}
pub(crate) fn slab_len<T>(b: &Buffer<T>) -> usize {
    b.slab.len()
}

/// C01.order (queue part): `Deque` is FIFO for `push_back`, `push_front` puts an item
/// ahead of everything, nothing is lost or duplicated - for every interleaving of <= 4
/// push_back / push_front / pop_front operations on two deques sharing one `Buffer`.
pub fn c01_order_deque_fifo() {
    let mut buf: Buffer<u32> = Buffer::new();
    let mut dq = [Deque::new(), Deque::new()];
    // reference model: two small arrays
    let mut model = [[0u32; 4]; 2];
    let mut mlen = [0usize; 2];
    let mut next_val = 1u32;
    let mut step = 0;
    while step < 4 {
        let q: usize = kani::any();
        kani::assume(q < 2);
        let op: u8 = kani::any();
        kani::assume(op < 3);
        if op == 0 {
            dq[q].push_back(&mut buf, next_val);
            model[q][mlen[q]] = next_val;
            mlen[q] += 1;
            next_val += 1;
        } else if op == 1 {
            dq[q].push_front(&mut buf, next_val);
            let mut i = mlen[q];
            while i > 0 {
                model[q][i] = model[q][i - 1];
                i -= 1;
            }
            model[q][0] = next_val;
            mlen[q] += 1;
            next_val += 1;
        } else {
            let got = dq[q].pop_front(&mut buf);
            if mlen[q] == 0 {
                assert!(got.is_none(), "pop from an empty deque returned an item");
            } else {
                assert!(got == Some(model[q][0]), "Deque is not FIFO / push_front not at the head");
                let mut i = 0;
                while i + 1 < mlen[q] {
                    model[q][i] = model[q][i + 1];
                    i += 1;
                }
                mlen[q] -= 1;
            }
        }
        assert!(dq[q].is_empty() == (mlen[q] == 0));
        step += 1;
    }
    assert!(buf.slab.len() == mlen[0] + mlen[1], "buffer slots leaked or lost");
    kani::cover!(mlen[0] == 2 && mlen[1] == 1, "two_queues_in_use");
    kani::cover!(true, "end");
    std::mem::forget(buf);
}
