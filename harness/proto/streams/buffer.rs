// harness bodies for h2 src/proto/streams/buffer.rs (compiled in-crate as `verif_h`, feature "verif")
