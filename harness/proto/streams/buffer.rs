// harness bodies for h2 src/proto/streams/buffer.rs
use super::*;

/// A `Deque` that only *claims* to be non-empty (for functions that look at
/// `is_empty()` and never dereference the queue, e.g. `Counts::transition_after`).
pub(crate) fn fake_nonempty() -> Deque {
    Deque { indices: Some(Indices { head: 0, tail: 0 }) }
}
pub(crate) fn with_capacity<T>(n: usize) -> Buffer<T> {
    Buffer { slab: Slab::with_capacity(n) }
}
pub(crate) fn slab_len<T>(b: &Buffer<T>) -> usize {
    b.slab.len()
}

/// C01.order (queue part): `Deque` hands items back in insertion order, `push_front`
/// puts an item ahead of everything, two deques sharing one `Buffer` do not mix, and
/// slots are neither leaked nor lost.  The operation *sequence* is concrete (a symbolic
/// sequence makes the slab index symbolic, which exhausts the SAT back end at 14 GB:
/// measured); the item values are symbolic, so the order claim holds for all values.
pub fn c01_order_deque_fifo() {
    let mut buf: Buffer<u32> = Buffer { slab: Slab::with_capacity(8) };
    let mut a = Deque::new();
    let mut b = Deque::new();
    let v: [u32; 6] = kani::any();
    a.push_back(&mut buf, v[0]);
    b.push_back(&mut buf, v[1]);
    a.push_back(&mut buf, v[2]);
    a.push_front(&mut buf, v[3]);
    assert!(a.pop_front(&mut buf) == Some(v[3]), "push_front item must come out first");
    b.push_back(&mut buf, v[4]); // reuses the freed slot
    assert!(a.pop_front(&mut buf) == Some(v[0]), "FIFO order (1)");
    a.push_back(&mut buf, v[5]);
    assert!(b.pop_front(&mut buf) == Some(v[1]), "second deque must not see the first one's items");
    assert!(a.pop_front(&mut buf) == Some(v[2]), "FIFO order (2)");
    assert!(a.pop_front(&mut buf) == Some(v[5]), "FIFO order (3)");
    assert!(a.pop_front(&mut buf).is_none() && a.is_empty());
    assert!(b.pop_front(&mut buf) == Some(v[4]));
    assert!(b.is_empty() && buf.slab.len() == 0, "buffer slots leaked");
    kani::cover!(true, "end");
    std::mem::forget(buf);
}

/// unreachability stub for `Deque::push_front` (queries in which the popped frame is never put back)
pub(crate) fn stub_push_front_unreachable<T>(_this: &mut Deque, _buf: &mut Buffer<T>, _value: T) {
    panic!("UNREACHABLE-STUB Deque::push_front")
}

/// Queue-content model for `Deque::pop_front`: the deque holds exactly one frame, of a
/// non-DATA kind that takes pop_frame's generic arm.  (Read back through the slab, the
/// frame's variant is not a constant for the symbolic executor, which then explores the
/// DATA, PUSH_PROMISE and every drop-glue arm: 10.9k VCCs, > 14 GB.  FIFO behaviour of the
/// real `Deque` is C01.order.deque_fifo.)  `T` is `Frame<SymBuf>` in every caller.
pub(crate) fn stub_pop_front_one_control_frame<T>(this: &mut Deque, _buf: &mut Buffer<T>) -> Option<T> {
    match this.indices.take() {
        Some(_) => {
            let f: crate::frame::Frame<crate::proto::streams::verif_h::SymBuf> =
                crate::frame::WindowUpdate::new(crate::frame::StreamId::from(1), 1).into();
            assert!(std::mem::size_of::<T>() == std::mem::size_of_val(&f));
            let t = unsafe { std::mem::transmute_copy::<_, T>(&f) };
            std::mem::forget(f);
            Some(t)
        }
        None => None,
    }
}

// ---------------------------------------------------------------------------
// Ghost deque for pop_frame's *blocked* regime (C01.order): the stream's queue is modelled
// as "one DATA frame (ghost fields below) at the head"; the three Deque operations are
// replaced so that no slab traffic is encoded and the put-back is observable:
//   pop_front  -> hands out that DATA frame,
//   push_front -> records the put-back and checks it is the same frame, unchanged,
//   push_back  -> unreachable (appending a frame that could not be sent lets later
//                 frames / END_STREAM overtake it).
// The real Deque's order behaviour is C01.order.deque_fifo.
// ---------------------------------------------------------------------------
pub(crate) static mut G_DATA: (usize, usize, bool) = (0, 0, false); // off, rem, END_STREAM
pub(crate) static mut G_FRONT_PUTS: u32 = 0;
type GF = crate::frame::Frame<crate::proto::streams::verif_h::SymBuf>;

pub(crate) fn stub_pop_front_one_data_frame<T>(this: &mut Deque, _buf: &mut Buffer<T>) -> Option<T> {
    match this.indices.take() {
        Some(_) => {
            let (off, rem, eos) = unsafe { G_DATA };
            let mut d = crate::frame::Data::new(crate::frame::StreamId::from(1),
                crate::proto::streams::verif_h::SymBuf { off, rem });
            d.set_end_stream(eos);
            let f: GF = d.into();
            assert!(std::mem::size_of::<T>() == std::mem::size_of::<GF>());
            let t = unsafe { std::mem::transmute_copy::<GF, T>(&f) };
            std::mem::forget(f);
            Some(t)
        }
        None => None,
    }
}
pub(crate) fn stub_push_front_record<T>(this: &mut Deque, _buf: &mut Buffer<T>, value: T) {
    assert!(std::mem::size_of::<T>() == std::mem::size_of::<GF>());
    let f = unsafe { std::mem::transmute_copy::<T, GF>(&value) };
    std::mem::forget(value);
    let (off, rem, eos) = unsafe { G_DATA };
    match &f {
        crate::frame::Frame::Data(d) => {
            assert!(d.payload().off == off && d.payload().rem == rem && d.is_end_stream() == eos,
                "C01.order/C01.reclaim: the frame put back at the front is not the expected unsent remainder (bytes or END_STREAM changed)");
        }
        _ => panic!("C01.order: something other than the blocked DATA frame was put back"),
    }
    std::mem::forget(f);
    unsafe { G_FRONT_PUTS += 1 };
    this.indices = Some(Indices { head: 0, tail: 0 });
}
pub(crate) fn stub_push_back_blocked_unreachable<T>(_this: &mut Deque, _buf: &mut Buffer<T>, _value: T) {
    panic!("C01.order: a DATA frame that could not be sent was appended to the BACK of its stream's queue (later frames / END_STREAM overtake unsent bytes)")
}

/// Ghost for `Deque::push_back` in the reset obligations (C17.one): records how many frames
/// were appended and checks each is an RST_STREAM, keeping its stream id and code.
pub(crate) static mut G_BACK_RESETS: (u32, u32, u32) = (0, 0, 0); // count, stream id, code
pub(crate) fn stub_push_back_record_reset<T>(this: &mut Deque, _buf: &mut Buffer<T>, value: T) {
    assert!(std::mem::size_of::<T>() == std::mem::size_of::<GF>());
    let f = unsafe { std::mem::transmute_copy::<T, GF>(&value) };
    std::mem::forget(value);
    match &f {
        crate::frame::Frame::Reset(r) => unsafe {
            G_BACK_RESETS = (G_BACK_RESETS.0 + 1, u32::from(r.stream_id()), u32::from(r.reason()));
        },
        _ => panic!("C17.one: a reset queued something other than RST_STREAM"),
    }
    std::mem::forget(f);
    assert!(this.indices.is_none(), "C17.one: RST_STREAM queued behind unsent frames that were not discarded (they would be sent after the reset)");
    this.indices = Some(Indices { head: 0, tail: 0 });
}
