// re-exports for h2 src/proto/streams/mod.rs: harness entry points (`pub fn`) of the child modules.
#[allow(unused_imports)]
pub use super::buffer::verif_h::*;
#[allow(unused_imports)]
pub use super::counts::verif_h::*;
#[allow(unused_imports)]
pub use super::flow_control::verif_h::*;
#[allow(unused_imports)]
pub use super::prioritize::verif_h::*;
#[allow(unused_imports)]
pub use super::recv::verif_h::*;
#[allow(unused_imports)]
pub use super::send::verif_h::*;
#[allow(unused_imports)]
pub use super::state::verif_h::*;
#[allow(unused_imports)]
pub use super::store::verif_h::*;
#[allow(unused_imports)]
pub use super::stream::verif_h::*;
#[allow(unused_imports)]
pub use super::streams::verif_h::*;
