// re-exports for h2 src/proto/streams/mod.rs: harness entry points (`pub fn`) of the child modules.
#[allow(unused_imports)]
pub use super::buffer::verif_h::*;
#[allow(unused_imports)]
pub use super::counts::verif_h::*;
#[allow(unused_imports)]
pub use super::flow_control::verif_h::*;
#[allow(unused_imports)]
pub use super::prioritize::verif_h::*;
#[allow(unused_imports)]
pub use super::recv::verif_h::*;
#[allow(unused_imports)]
pub use super::send::verif_h::*;
#[allow(unused_imports)]
pub use super::state::verif_h::*;
#[allow(unused_imports)]
pub use super::store::verif_h::*;
#[allow(unused_imports)]
pub use super::stream::verif_h::*;
#[allow(unused_imports)]
pub use super::streams::verif_h::*;

// ---------------------------------------------------------------------------
// shared construction helpers for the step harnesses
use super::*;
use std::time::{Duration, Instant};

/// A `Config` with every limit either concrete-generous or chosen by the caller.
pub(crate) fn cfg() -> Config {
    Config {
        initial_max_send_streams: 10,
        local_max_buffer_size: 1 << 20,
        local_next_stream_id: 1.into(),
        local_push_enabled: false,
        extended_connect_protocol_enabled: false,
        local_reset_duration: Duration::from_secs(1),
        local_reset_max: 10,
        remote_reset_max: 10,
        remote_init_window_sz: 65_535,
        remote_max_initiated: None,
        local_max_error_reset_streams: None,
        data_frame_budget: crate::proto::DEFAULT_DATA_FRAME_BUDGET,
    }
}

/// Payload type of outbound frames in harnesses: only the *amount* of data matters
/// to h2's splitting/accounting (it is generic in `B: Buf`); `off` records where in
/// the user's byte stream this piece starts, so harnesses can assert that emitted
/// pieces are contiguous and in order.
#[derive(Debug, Clone, Copy, PartialEq, Eq)]
pub(crate) struct SymBuf {
    pub off: usize,
    pub rem: usize,
}
static ZEROS: [u8; 8] = [0; 8];
impl bytes::Buf for SymBuf {
    fn remaining(&self) -> usize {
        self.rem
    }
    fn chunk(&self) -> &[u8] {
        let n = if self.rem < 8 { self.rem } else { 8 };
        &ZEROS[..n]
    }
    fn advance(&mut self, cnt: usize) {
        assert!(cnt <= self.rem, "advance past the end of the buffer");
        self.rem -= cnt;
        self.off += cnt;
    }
}

/// Builds an `Instant` from raw parts (the clock stub / reset-expiry harnesses need
/// instants without calling the OS clock).  Layout is validated by `instant_layout_ok`.
pub(crate) fn mk_instant(secs: i64, nanos: u32) -> Instant {
    #[repr(C)]
    struct Raw {
        secs: i64,
        nanos: u32,
    }
    assert!(std::mem::size_of::<Instant>() == std::mem::size_of::<Raw>());
    unsafe { std::mem::transmute::<Raw, Instant>(Raw { secs, nanos }) }
}
pub(crate) fn instant_layout_ok() -> bool {
    let a = mk_instant(5, 7);
    let b = mk_instant(6, 7);
    b.checked_duration_since(a) == Some(Duration::from_secs(1)) && a < b
}

/// Clock stub: an arbitrary instant in a range where adding the configured
/// durations cannot overflow; successive calls are non-decreasing.
static mut CLOCK_SECS: i64 = 1_000;
pub(crate) fn stub_instant_now() -> Instant {
    let step: i64 = kani::any();
    kani::assume(step >= 0 && step <= 1_000_000);
    unsafe {
        CLOCK_SECS += step;
        mk_instant(CLOCK_SECS, 0)
    }
}

/// Counting waker: `wake`/`wake_by_ref` increment a counter, nothing else.
pub(crate) mod cw {
    use std::task::{RawWaker, RawWakerVTable, Waker};
    pub(crate) static mut WAKES: [u32; 4] = [0; 4];
    unsafe fn clone(p: *const ()) -> RawWaker {
        RawWaker::new(p, &VT)
    }
    unsafe fn wake(p: *const ()) {
        WAKES[p as usize] += 1;
    }
    unsafe fn drop(_p: *const ()) {}
    static VT: RawWakerVTable = RawWakerVTable::new(clone, wake, wake, drop);
    /// waker number `i` (0..4)
    pub(crate) fn waker(i: usize) -> Waker {
        unsafe { Waker::from_raw(RawWaker::new(i as *const (), &VT)) }
    }
    pub(crate) fn wakes(i: usize) -> u32 {
        unsafe { WAKES[i] }
    }
}
