// harness bodies for h2 src/proto/streams/store.rs (compiled in-crate as `verif_h`, feature "verif")
