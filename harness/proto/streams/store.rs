// harness bodies for h2 src/proto/streams/store.rs
use super::*;

/// Slab-only insertion: the id map is left untouched (no id lookup is needed when
/// the operation under test reaches the record only through its `Key`/`Ptr`).
pub(crate) fn insert_slab_only(store: &mut Store, val: Stream) -> Key {
    let stream_id = val.id;
    let index = SlabIndex(store.slab.insert(val) as u32);
    Key { index, stream_id }
}
pub(crate) fn slab_contains(store: &Store, key: Key) -> bool {
    store.slab.contains(key.index.0 as usize)
}
pub(crate) fn slab_len(store: &Store) -> usize {
    store.slab.len()
}
pub(crate) fn ids_len(store: &Store) -> usize {
    store.ids.len()
}
pub(crate) fn ids_contains(store: &Store, id: StreamId) -> bool {
    store.ids.contains_key(&id)
}
pub(crate) fn key_index(key: Key) -> u32 {
    key.index.0
}
pub(crate) fn queue_is_empty<N: Next>(q: &Queue<N>) -> bool {
    q.indices.is_none()
}
pub(crate) fn queue_head<N: Next>(q: &Queue<N>) -> Option<Key> {
    q.indices.map(|i| i.head)
}

/// unreachability stubs for the record-release path (`ref_count >= 1` / stream not
/// closed in the query): because they panic, a pass also shows they were unreachable.
impl<'a> Ptr<'a> {
    // (inherent methods so that the impl lifetime is early-bound like the originals')
    pub(crate) fn verif_stub_remove_unreachable(self) -> StreamId {
        panic!("UNREACHABLE-STUB store::Ptr::remove")
    }
    pub(crate) fn verif_stub_unlink_unreachable(&mut self) {
        panic!("UNREACHABLE-STUB store::Ptr::unlink")
    }
}

/// unreachability stub for `Store::find_mut`
pub(crate) fn stub_find_mut_unreachable<'a>(_s: &'a mut Store, _id: &StreamId) -> Option<Ptr<'a>> {
    panic!("UNREACHABLE-STUB Store::find_mut")
}

/// C01.aba / C19.key: after a record is removed and its slab slot reused by a
/// different stream, resolving the old key panics ("dangling store key"); it never
/// yields the new stream's record.  ids symbolic (any two distinct non-zero ids).
pub fn c19_key_stale_never_aliases() {
    let mut store = Store::new();
    let a: u32 = kani::any();
    let b: u32 = kani::any();
    kani::assume(a >= 1 && a <= 0x7fff_ffff && b >= 1 && b <= 0x7fff_ffff && a != b);
    let key_a = insert_slab_only(&mut store, Stream::new(StreamId::from(a), 0, 0));
    {
        let ptr = store.resolve(key_a);
        let removed = ptr.remove();
        assert!(removed == StreamId::from(a));
    }
    let key_b = insert_slab_only(&mut store, Stream::new(StreamId::from(b), 0, 0));
    assert!(key_index(key_a) == key_index(key_b), "harness expects the slab slot to be reused");
    assert!(store[key_b].id == StreamId::from(b));
    kani::cover!(true, "end");
    // the stale key:
    let s = &store[key_a];
    let _ = s.id;
    assert!(false, "MARK stale key resolved to a record");
}

/// same through the mutable path (`Ptr` deref_mut)
pub fn c19_key_stale_never_aliases_mut() {
    let mut store = Store::new();
    let a: u32 = kani::any();
    let b: u32 = kani::any();
    kani::assume(a >= 1 && a <= 0x7fff_ffff && b >= 1 && b <= 0x7fff_ffff && a != b);
    let key_a = insert_slab_only(&mut store, Stream::new(StreamId::from(a), 0, 0));
    store.resolve(key_a).remove();
    let _key_b = insert_slab_only(&mut store, Stream::new(StreamId::from(b), 0, 0));
    kani::cover!(true, "end");
    let mut ptr = store.resolve(key_a);
    ptr.is_counted = true;
    assert!(false, "MARK stale key resolved to a record");
}

/// C19.key: a key whose slot is vacant (never reused) also panics.
pub fn c19_key_vacant_slot_panics() {
    let mut store = Store::new();
    let key_a = insert_slab_only(&mut store, Stream::new(StreamId::from(1), 0, 0));
    store.resolve(key_a).remove();
    kani::cover!(true, "end");
    let _ = store[key_a].id;
    assert!(false, "MARK stale key resolved to a record");
}

/// `Queue` (intrusive per-stream links) is FIFO over two records and never loses a
/// stream: push/push_front/pop sequences of length 3 on the `pending_send` links.
pub fn c01_order_store_queue() {
    let mut store = Store::new();
    let k1 = insert_slab_only(&mut store, Stream::new(StreamId::from(1), 0, 0));
    let k2 = insert_slab_only(&mut store, Stream::new(StreamId::from(3), 0, 0));
    let mut q: Queue<stream::NextSend> = Queue::new();
    let first_is_1: bool = kani::any();
    let front: bool = kani::any();
    let (ka, kb) = if first_is_1 { (k1, k2) } else { (k2, k1) };
    assert!(q.push(&mut store.resolve(ka)));
    assert!(!q.push(&mut store.resolve(ka)), "double push must be refused");
    if front {
        assert!(q.push_front(&mut store.resolve(kb)));
    } else {
        assert!(q.push(&mut store.resolve(kb)));
    }
    let p1 = q.pop(&mut store).map(|p| p.key());
    let p2 = q.pop(&mut store).map(|p| p.key());
    let p3 = q.pop(&mut store).map(|p| p.key());
    if front {
        assert!(p1 == Some(kb) && p2 == Some(ka), "push_front must be served first");
    } else {
        assert!(p1 == Some(ka) && p2 == Some(kb), "Queue is not FIFO");
    }
    assert!(p3.is_none() && q.is_empty());
    assert!(!store[k1].is_pending_send && !store[k2].is_pending_send);
    assert!(store[k1].next_pending_send.is_none() && store[k2].next_pending_send.is_none());
    kani::cover!(front, "front");
    kani::cover!(true, "end");
    std::mem::forget(store);
}

/// puts exactly `key` into a queue without going through `Queue::push`
pub(crate) fn queue_set_single<N: Next>(q: &mut Queue<N>, key: Key) {
    q.indices = Some(Indices { head: key, tail: key });
}
