// harness bodies for h2 src/proto/peer.rs (compiled in-crate as `verif_h`, feature "verif")
