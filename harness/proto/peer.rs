// harness bodies for h2 src/proto/peer.rs (compiled in-crate as `verif_h`, feature "verif")
use super::*;

/// Rule-7 stub for `peer::Dyn::convert_poll_message`: the http-crate builders are not
/// the subject of the counting/ordering obligations; returns an arbitrary `Ok`
/// (an empty message of the right role) or a stream error.
pub(crate) fn stub_convert_poll_message(this: &Dyn, pseudo: Pseudo, fields: HeaderMap, stream_id: StreamId) -> Result<PollMessage, Error> {
    std::mem::forget(pseudo);
    std::mem::forget(fields);
    if kani::any() {
        if this.is_server() {
            Ok(PollMessage::Server(Request::new(())))
        } else {
            Ok(PollMessage::Client(Response::new(())))
        }
    } else {
        Err(Error::library_reset(stream_id, Reason::PROTOCOL_ERROR))
    }
}
