// harness bodies for h2 src/proto/settings.rs (compiled in-crate as `verif_h`, feature "verif")
