// harness bodies for h2 src/proto/go_away.rs (compiled in-crate as `verif_h`, feature "verif")
use super::*;

fn any_id() -> StreamId {
    let v: u32 = kani::any();
    kani::assume(v <= 0x7fff_ffff);
    StreamId::from(v)
}

/// C15.mono: for any <= 3 GOAWAY requests whose last-stream-ids respect the caller
/// contract (non-increasing: `Recv::last_processed_id` is frozen once `Recv::go_away`
/// ran, see C15.lpid), the recorded / pending last-stream-id never increases, the
/// `assert!` in `go_away` is unreachable, an identical (id, reason) is not queued twice
/// by `go_away_now`, and the close predicates follow their truth table.
pub fn c15_mono_go_away_sequence() {
    let mut g = GoAway::new();
    assert!(!g.is_going_away() && !g.should_close_now() && !g.should_close_on_idle());
    let mut last: Option<(StreamId, Reason)> = None;
    let mut close_now = false;
    let mut user = false;
    let mut i = 0;
    while i < 3 {
        let id = any_id();
        let reason: u32 = kani::any();
        if let Some((prev, _)) = last {
            kani::assume(id <= prev);
        }
        let f = frame::GoAway::new(id, reason.into());
        let kind: u8 = kani::any();
        kani::assume(kind < 3);
        // between two requests the pending frame may or may not have been written
        let sent: bool = kani::any();
        if sent {
            g.pending = None;
        }
        let had_pending = g.pending.is_some();
        if kind == 0 {
            g.go_away(f);
        } else if kind == 1 {
            g.go_away_now(f);
            close_now = true;
        } else {
            g.go_away_from_user(f);
            close_now = true;
            user = true;
        }
        let duplicate = kind != 0 && last == Some((id, reason.into()));
        match g.going_away() {
            Some(ga) => {
                assert!(ga.last_processed_id == id, "recorded last-stream-id is not the latest request");
                if let Some((prev, _)) = last {
                    assert!(ga.last_processed_id <= prev, "C15: last-stream-id increased");
                }
            }
            None => panic!("not going away after a GOAWAY request"),
        }
        if duplicate {
            assert!(g.pending.is_some() == had_pending, "identical GOAWAY queued again");
        } else {
            match &g.pending {
                Some(p) => assert!(p.last_stream_id() == id && u32::from(p.reason()) == reason, "pending GOAWAY is not the latest request"),
                None => panic!("GOAWAY request not queued"),
            }
        }
        assert!(g.is_user_initiated() == user);
        assert!(g.should_close_now() == (g.pending.is_none() && close_now));
        assert!(g.should_close_on_idle() == (!close_now && id != StreamId::MAX));
        last = Some((id, reason.into()));
        i += 1;
    }
    kani::cover!(close_now && g.pending.is_none(), "close_now_reached");
    kani::cover!(true, "end");
    std::mem::forget(g);
}

/// C15 / C18: the pending GOAWAY is written exactly once, with the requested
/// last-stream-id and reason, and is kept (not dropped, not duplicated) under back-pressure.
pub fn c15_send_pending_go_away_blocked() { send_pending_go_away(true) }
pub fn c15_send_pending_go_away_room() { send_pending_go_away(false) }
fn send_pending_go_away(blocked: bool) {
    use crate::codec::verif_h::{codec_buffered, codec_set_blocked, mk_codec, Mock, EXP};
    use crate::proto::verif_h::SymBuf;
    let mut g = GoAway::new();
    let id = any_id();
    let reason: u32 = kani::any();
    let now: bool = kani::any();
    if now {
        g.go_away_now(frame::GoAway::new(id, reason.into()));
    } else {
        g.go_away(frame::GoAway::new(id, reason.into()));
    }
    let mut codec = mk_codec::<SymBuf>(Mock::new([0; EXP], 0, 0));
    codec_set_blocked(&mut codec, blocked);
    let waker = std::task::Waker::noop();
    let mut cx = Context::from_waker(&waker);
    let r = g.send_pending_go_away(&mut cx, &mut codec);
    if blocked {
        assert!(r.is_pending() && g.pending.is_some(), "owed GOAWAY lost under back-pressure");
        assert!(codec_buffered(&codec).is_empty());
        assert!(!g.should_close_now(), "connection would close before its GOAWAY was written");
    } else {
        match &r {
            Poll::Ready(Some(Ok(rs))) => assert!(u32::from(*rs) == reason),
            _ => panic!("GOAWAY not reported as sent"),
        }
        let b = codec_buffered(&codec);
        assert!(b.len() == 17 && b[2] == 8 && b[3] == 7 && b[4] == 0 && b[5] == 0 && b[6] == 0 && b[7] == 0 && b[8] == 0, "one GOAWAY frame on stream 0");
        let last = ((b[9] as u32) << 24) | ((b[10] as u32) << 16) | ((b[11] as u32) << 8) | (b[12] as u32);
        let code = ((b[13] as u32) << 24) | ((b[14] as u32) << 16) | ((b[15] as u32) << 8) | (b[16] as u32);
        assert!(last == u32::from(id) && code == reason, "GOAWAY on the wire differs from the request");
        assert!(g.pending.is_none());
        assert!(g.should_close_now() == now);
        // (a second call finds `pending == None`: it cannot write a second GOAWAY)
    }
    kani::cover!(now, "now");
    kani::cover!(true, "end");
    std::mem::forget(r);
    std::mem::forget(codec);
    std::mem::forget(g);
}
