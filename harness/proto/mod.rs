// re-exports for h2 src/proto/mod.rs: harness entry points (`pub fn`) of the child modules.
#[allow(unused_imports)]
pub use super::settings::verif_h::*;
#[allow(unused_imports)]
pub use super::ping_pong::verif_h::*;
#[allow(unused_imports)]
pub use super::go_away::verif_h::*;
#[allow(unused_imports)]
pub use super::connection::verif_h::*;
#[allow(unused_imports)]
pub use super::peer::verif_h::*;
#[allow(unused_imports)]
pub use super::error::verif_h::*;
#[allow(unused_imports)]
pub use super::streams::verif_h::*;
