// harness bodies for h2 src/hpack/header.rs (compiled in-crate as `verif_h`, feature "verif")
