// harness bodies for h2 src/hpack/huffman/mod.rs (compiled in-crate as `verif_h`, feature "verif")
