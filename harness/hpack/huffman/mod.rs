// harness bodies for h2 src/hpack/huffman/mod.rs (compiled in-crate as `verif_h`, feature "verif")
use super::*;

include!(concat!(env!("H2_VERIF_DIR"), "/harness/hpack/rfc7541_table.rs"));

/// Reference Huffman string decoder, RFC 7541 §5.2 + Appendix B (frozen table in
/// /verif, canonical form): walks the input bit by bit.  Errors: EOS symbol inside
/// the string, padding longer than 7 bits, padding that is not a prefix of EOS.
/// Output capacity M must be >= ceil(8*n/5).
pub(crate) fn ref_huff_decode<const M: usize>(src: &[u8]) -> Result<([u8; M], usize), ()> {
    let mut out = [0u8; M];
    let mut olen = 0usize;
    let mut len: usize = 0;
    let mut val: u32 = 0;
    let mut i = 0;
    while i < src.len() {
        let mut bit = 0;
        while bit < 8 {
            val = (val << 1) | (((src[i] >> (7 - bit)) & 1) as u32);
            len += 1;
            if len > 30 {
                return Err(()); // unreachable for a complete code; kept as a guard
            }
            let cnt = RFC_COUNT[len];
            if cnt > 0 && val >= RFC_FIRST[len] && val - RFC_FIRST[len] < cnt {
                let sym = RFC_SYMS[RFC_OFFS[len] as usize + (val - RFC_FIRST[len]) as usize];
                if sym == 256 {
                    return Err(()); // EOS inside the string
                }
                out[olen] = sym as u8;
                olen += 1;
                len = 0;
                val = 0;
            }
            bit += 1;
        }
        i += 1;
    }
    // what is left is padding: at most 7 bits, all ones
    if len > 7 || val != (1u32 << len) - 1 {
        return Err(());
    }
    Ok((out, olen))
}

/// C11.huff: `huffman::decode` agrees with the reference on every string of N bytes.
fn huff_vs_reference<const N: usize, const M: usize>() {
    let src: [u8; N] = kani::any();
    let mut buf = BytesMut::with_capacity(2 * N + 8);
    let got = decode(&src, &mut buf);
    let want = ref_huff_decode::<M>(&src);
    match (&got, &want) {
        (Ok(g), Ok((w, wl))) => {
            assert!(g.len() == *wl, "huffman: decoded length differs from RFC 7541");
            let mut i = 0;
            while i < M {
                if i < *wl {
                    assert!(g[i] == w[i], "huffman: decoded octet differs from RFC 7541");
                }
                i += 1;
            }
        }
        (Ok(_), Err(())) => panic!("huffman: accepted a string RFC 7541 makes a decoding error (EOS / padding)"),
        (Err(_), Ok(_)) => panic!("huffman: rejected a valid Huffman string"),
        (Err(e), Err(())) => assert!(*e == DecoderError::InvalidHuffmanCode),
    }
    kani::cover!(got.is_ok() && want.is_ok(), "both_ok");
    kani::cover!(got.is_err(), "rejected");
    kani::cover!(true, "end");
    std::mem::forget(got);
    std::mem::forget(buf);
}
pub fn c11_huff_len0() { huff_vs_reference::<0, 1>() }
pub fn c11_huff_len1() { huff_vs_reference::<1, 2>() }
pub fn c11_huff_len2() { huff_vs_reference::<2, 4>() }
pub fn c11_huff_len3() { huff_vs_reference::<3, 5>() }
pub fn c11_huff_len4() { huff_vs_reference::<4, 7>() }

/// C11.table: for every octet b whose code needs NB bytes, `encode([b])` is the RFC
/// code of b padded with ones (ties ENCODE_TABLE to the frozen RFC table) and
/// `decode(encode([b])) = [b]` (ties DECODE_TABLE to it).  NB = 1..=4 covers all octets.
fn symbol_roundtrip<const NB: usize>() {
    let b: u8 = kani::any();
    let (nbits, code) = RFC_CODE[b as usize];
    kani::assume((nbits as usize + 7) / 8 == NB);
    let mut enc = BytesMut::with_capacity(16);
    encode(&[b], &mut enc);
    assert!(enc.len() == NB, "huffman::encode: wrong encoded length");
    // expected bytes: code left-aligned, padded with ones
    let total = NB * 8;
    let padded: u64 = ((code as u64) << (total - nbits as usize)) | ((1u64 << (total - nbits as usize)) - 1);
    let mut src = [0u8; NB];
    let mut i = 0;
    while i < NB {
        assert!(enc[i] == (padded >> (8 * (NB - 1 - i))) as u8, "huffman::encode: wrong code bits");
        src[i] = enc[i];
        i += 1;
    }
    let mut buf = BytesMut::with_capacity(16);
    let out = decode(&src, &mut buf);
    match &out {
        Ok(o) => assert!(o.len() == 1 && o[0] == b, "decode(encode([b])) != [b]"),
        Err(_) => panic!("decode rejected encode([b])"),
    }
    kani::cover!(true, "end");
    std::mem::forget(out);
    std::mem::forget(buf);
    std::mem::forget(enc);
}
pub fn c11_table_sym1() { symbol_roundtrip::<1>() }
pub fn c11_table_sym2() { symbol_roundtrip::<2>() }
pub fn c11_table_sym3() { symbol_roundtrip::<3>() }
pub fn c11_table_sym4() { symbol_roundtrip::<4>() }
