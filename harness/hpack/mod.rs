// re-exports for h2 src/hpack/mod.rs: harness entry points (`pub fn`) of the child modules.
#[allow(unused_imports)]
pub use super::decoder::verif_h::*;
#[allow(unused_imports)]
pub use super::encoder::verif_h::*;
#[allow(unused_imports)]
pub use super::table::verif_h::*;
#[allow(unused_imports)]
pub use super::header::verif_h::*;
#[allow(unused_imports)]
pub use super::huffman::verif_h::*;
