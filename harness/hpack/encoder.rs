// harness bodies for h2 src/hpack/encoder.rs (compiled in-crate as `verif_h`, feature "verif")
use super::*;
use crate::hpack::decoder::verif_h::{ref_decode_int, RefInt};

/// C10.int: `encode_int` output is decoded by the RFC 7541 §5.1 reference decoder
/// to the same value, uses <= 5 octets, and keeps the caller's first-octet flag bits,
/// for every value < 2^28 and prefix 4..=7.
pub fn c10_int_roundtrip() {
    let value: usize = kani::any();
    kani::assume(value < (1 << 28));
    let prefix: usize = kani::any();
    kani::assume(prefix >= 4 && prefix <= 7);
    let flags: u8 = kani::any();
    kani::assume((flags as usize) & ((1usize << prefix) - 1) == 0);
    let mut out = [0u8; 8];
    let mut dst = &mut out[..];
    encode_int(value, prefix, flags, &mut dst);
    let written = 8 - dst.len();
    assert!(written >= 1 && written <= 5, "encode_int: more than 5 octets for a value < 2^28");
    assert!(out[0] & !(((1usize << prefix) - 1) as u8) == flags, "encode_int: first-octet flag bits changed");
    match ref_decode_int(&out[..written], prefix as u8) {
        RefInt::Val(v, k) => {
            assert!(v as usize == value, "encode_int: reference decoder reads a different value");
            assert!(k == written, "encode_int: trailing octets");
        }
        _ => panic!("encode_int: output is not a complete RFC 7541 integer"),
    }
    // minimal length (the RFC encoding is unique): a strict prefix is incomplete
    if written > 1 {
        assert!(ref_decode_int(&out[..written - 1], prefix as u8) == RefInt::NeedMore);
    }
    kani::cover!(written == 5, "five_octets");
    kani::cover!(written == 1, "one_octet");
    kani::cover!(true, "end");
}

/// C10.size: for any <= 3 consecutive `update_max_size` calls between two header
/// blocks, the size updates emitted at the start of the next block follow RFC 7541
/// §4.2: at most two; the last one is the final size; if the size dipped below both
/// the size in force and the final size, the minimum is signalled first; values never
/// exceed what the peer allowed (nor the 4096 cap); the table ends at the final size.
pub fn c10_size_updates() {
    let t0: usize = kani::any();
    kani::assume(t0 <= 4096);
    let mut enc = Encoder::new(t0, 0);
    let k: usize = kani::any();
    kani::assume(k >= 1 && k <= 3);
    let v: [usize; 3] = kani::any();
    let mut m = usize::MAX;
    let mut fin = t0;
    let mut i = 0;
    while i < 3 {
        if i < k {
            enc.update_max_size(v[i]);
            let c = if v[i] > 4096 { 4096 } else { v[i] };
            if c < m { m = c; }
            fin = c;
        }
        i += 1;
    }
    let mut dst = BytesMut::with_capacity(64);
    enc.encode_size_updates(&mut dst);
    // parse what was emitted with the reference integer decoder
    let mut ups = [0u64; 3];
    let mut n_up = 0;
    let mut pos = 0;
    while pos < dst.len() {
        assert!(dst[pos] & 0xe0 == 0x20, "size update: wrong representation bits");
        match ref_decode_int(&dst[pos..], 5) {
            RefInt::Val(val, used) => {
                assert!(n_up < 2, "more than two size updates");
                ups[n_up] = val;
                n_up += 1;
                pos += used;
            }
            _ => panic!("size update: malformed integer"),
        }
    }
    if n_up == 0 {
        assert!(fin == t0, "final table size differs from the size in force but no update was emitted");
        assert!(m >= t0, "table size dipped below the size in force but no update was emitted");
    } else {
        assert!(ups[n_up - 1] as usize == fin, "last size update is not the final size");
        if m < t0 && m < fin {
            assert!(n_up == 2 && ups[0] as usize == m, "smallest size in the interval not signalled first");
        }
        if n_up == 2 {
            assert!(ups[0] <= ups[1]);
        }
    }
    assert!(enc.table.max_size() == fin, "encoder table size != final size");
    assert!(crate::hpack::table::verif_h::size(&enc.table) <= enc.table.max_size());
    assert!(enc.size_update.is_none(), "size update still pending after it was emitted");
    kani::cover!(n_up == 2, "two_updates");
    kani::cover!(n_up == 0, "no_update");
    kani::cover!(true, "end");
    std::mem::forget(dst);
    std::mem::forget(enc);
}

/// C10.str: the string head written by `encode_str` around the 7-bit prefix limit.  The
/// Huffman coder is a ghost that appends exactly `G_HUFF_LEN` octets (octet j = j ^ 0x5a) -
/// the real coder is C11.huff / C11.table - so the encoded length is exact by construction.
/// Reference (RFC 7541 §5.1/§5.2): H bit set, length as a 7-bit-prefix integer (127 means
/// "more octets follow"), then exactly `len` octets in order.
pub(crate) static mut G_HUFF_LEN: usize = 0;
pub(crate) fn stub_huffman_encode_ghost(_src: &[u8], dst: &mut BytesMut) {
    let n = unsafe { G_HUFF_LEN };
    let mut j = 0;
    while j < n {
        dst.put_u8((j as u8) ^ 0x5a);
        j += 1;
    }
}
fn str_head<const N: usize>() {
    unsafe { G_HUFF_LEN = N };
    let mut dst = BytesMut::with_capacity(512);
    let lead: u8 = kani::any();
    dst.put_u8(lead); // something already in the block
    encode_str(b"x", &mut dst);
    assert!(dst[0] == lead);
    let out = &dst[1..];
    match ref_decode_int(out, 7) {
        RefInt::Val(v, k) => {
            assert!(out[0] & 0x80 == 0x80, "H bit lost");
            assert!(v as usize == N, "C10.str: string length head differs from the number of octets that follow (decoder mis-frames the block)");
            assert!(out.len() == k + N, "C10.str: octets lost or duplicated behind the head");
            let j: usize = kani::any();
            kani::assume(j < N);
            assert!(out[k + j] == (j as u8) ^ 0x5a, "C10.str: string octets moved out of order while making room for the head");
        }
        _ => panic!("C10.str: string head is not a complete RFC 7541 integer"),
    }
    kani::cover!(true, "end");
    std::mem::forget(dst);
}
pub fn c10_str_head_126() { str_head::<126>() }
pub fn c10_str_head_127() { str_head::<127>() }
pub fn c10_str_head_128() { str_head::<128>() }
