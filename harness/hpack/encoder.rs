// harness bodies for h2 src/hpack/encoder.rs (compiled in-crate as `verif_h`, feature "verif")
