// harness bodies for h2 src/hpack/decoder.rs (compiled in-crate as `verif_h`, feature "verif")
use super::*;

#[derive(PartialEq, Eq, Clone, Copy)]
pub(crate) enum RefInt {
    Val(u64, usize), // value, octets consumed
    NeedMore,
    Error,
}

/// Reference prefix-integer decoder: RFC 7541 §5.1 pseudo-code, plus the
/// implementation limit the property names ("integer overflow" is an error):
/// at most 4 continuation octets (values < 2^28 + 2^N - 1).
pub(crate) fn ref_decode_int(b: &[u8], prefix: u8) -> RefInt {
    if b.is_empty() {
        return RefInt::NeedMore;
    }
    let max: u64 = (1u64 << prefix) - 1;
    let mut i: u64 = (b[0] as u64) & max;
    if i < max {
        return RefInt::Val(i, 1);
    }
    let mut m: u32 = 0;
    let mut k = 1;
    loop {
        if k >= b.len() {
            return RefInt::NeedMore;
        }
        let o = b[k];
        i += ((o & 127) as u64) << m;
        m += 7;
        k += 1;
        if o & 128 == 0 {
            return RefInt::Val(i, k);
        }
        if k == 5 {
            return RefInt::Error;
        }
    }
}

/// C11.int / C08.int: `decode_int` equals the reference on every 6-byte string,
/// every length 0..=6 and every prefix 1..=8; prefix 0 and > 8 are errors.
pub fn c11_int_decode() {
    let bytes: [u8; 6] = kani::any();
    let n: usize = kani::any();
    kani::assume(n <= 6);
    let prefix: u8 = kani::any();
    let mut buf = &bytes[..n];
    let got = decode_int(&mut buf, prefix);
    let consumed = n - buf.len();
    if prefix < 1 || prefix > 8 {
        assert!(got == Err(DecoderError::InvalidIntegerPrefix));
        assert!(consumed == 0);
    } else {
        match ref_decode_int(&bytes[..n], prefix) {
            RefInt::Val(v, k) => {
                assert!(got == Ok(v as usize), "decode_int: value differs from RFC 7541 5.1");
                assert!(consumed == k, "decode_int: consumed octets differ");
            }
            RefInt::NeedMore => {
                assert!(got == Err(DecoderError::NeedMore(NeedMore::IntegerUnderflow)),
                    "decode_int: a strict prefix of an integer must report NeedMore");
            }
            RefInt::Error => {
                assert!(got == Err(DecoderError::IntegerOverflow), "decode_int: over-long integer accepted");
            }
        }
    }
    kani::cover!(matches!(got, Ok(v) if v > 1 << 27), "large_value");
    kani::cover!(got == Err(DecoderError::IntegerOverflow), "overflow");
    kani::cover!(matches!(got, Err(DecoderError::NeedMore(_))) && n == 4, "need_more");
    kani::cover!(true, "end");
}

/// C11 representation dispatch: every first octet maps to the RFC 7541 §6 representation.
pub fn c11_representation_load() {
    let b: u8 = kani::any();
    let r = Representation::load(b);
    let want = if b & 0x80 != 0 { 0 } else if b & 0x40 != 0 { 1 } else if b & 0x20 != 0 { 4 }
               else if b & 0x10 != 0 { 3 } else { 2 };
    match r {
        Ok(Representation::Indexed) => assert!(want == 0),
        Ok(Representation::LiteralWithIndexing) => assert!(want == 1),
        Ok(Representation::LiteralWithoutIndexing) => assert!(want == 2),
        Ok(Representation::LiteralNeverIndexed) => assert!(want == 3),
        Ok(Representation::SizeUpdate) => assert!(want == 4),
        Err(_) => panic!("every octet is a valid representation start in RFC 7541"),
    }
    kani::cover!(true, "end");
}
