// harness bodies for h2 src/hpack/decoder.rs (compiled in-crate as `verif_h`, feature "verif")
