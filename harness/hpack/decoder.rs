// harness bodies for h2 src/hpack/decoder.rs (compiled in-crate as `verif_h`, feature "verif")
use super::*;

#[derive(PartialEq, Eq, Clone, Copy)]
pub(crate) enum RefInt {
    Val(u64, usize), // value, octets consumed
    NeedMore,
    Error,
}

/// Reference prefix-integer decoder: RFC 7541 §5.1 pseudo-code, plus the
/// implementation limit the property names ("integer overflow" is an error):
/// at most 4 continuation octets (values < 2^28 + 2^N - 1).
pub(crate) fn ref_decode_int(b: &[u8], prefix: u8) -> RefInt {
    if b.is_empty() {
        return RefInt::NeedMore;
    }
    let max: u64 = (1u64 << prefix) - 1;
    let mut i: u64 = (b[0] as u64) & max;
    if i < max {
        return RefInt::Val(i, 1);
    }
    let mut m: u32 = 0;
    let mut k = 1;
    loop {
        if k >= b.len() {
            return RefInt::NeedMore;
        }
        let o = b[k];
        i += ((o & 127) as u64) << m;
        m += 7;
        k += 1;
        if o & 128 == 0 {
            return RefInt::Val(i, k);
        }
        if k == 5 {
            return RefInt::Error;
        }
    }
}

/// C11.int / C08.int: `decode_int` equals the reference on every 6-byte string,
/// every length 0..=6 and every prefix 1..=8; prefix 0 and > 8 are errors.
pub fn c11_int_decode() {
    let bytes: [u8; 6] = kani::any();
    let n: usize = kani::any();
    kani::assume(n <= 6);
    let prefix: u8 = kani::any();
    let mut buf = &bytes[..n];
    let got = decode_int(&mut buf, prefix);
    let consumed = n - buf.len();
    if prefix < 1 || prefix > 8 {
        assert!(got == Err(DecoderError::InvalidIntegerPrefix));
        assert!(consumed == 0);
    } else {
        match ref_decode_int(&bytes[..n], prefix) {
            RefInt::Val(v, k) => {
                assert!(got == Ok(v as usize), "decode_int: value differs from RFC 7541 5.1");
                assert!(consumed == k, "decode_int: consumed octets differ");
            }
            RefInt::NeedMore => {
                assert!(got == Err(DecoderError::NeedMore(NeedMore::IntegerUnderflow)),
                    "decode_int: a strict prefix of an integer must report NeedMore");
            }
            RefInt::Error => {
                assert!(got == Err(DecoderError::IntegerOverflow), "decode_int: over-long integer accepted");
            }
        }
    }
    kani::cover!(matches!(got, Ok(v) if v > 1 << 27), "large_value");
    kani::cover!(got == Err(DecoderError::IntegerOverflow), "overflow");
    kani::cover!(matches!(got, Err(DecoderError::NeedMore(_))) && n == 4, "need_more");
    kani::cover!(true, "end");
}

/// C11 representation dispatch: every first octet maps to the RFC 7541 §6 representation.
pub fn c11_representation_load() {
    let b: u8 = kani::any();
    let r = Representation::load(b);
    let want = if b & 0x80 != 0 { 0 } else if b & 0x40 != 0 { 1 } else if b & 0x20 != 0 { 4 }
               else if b & 0x10 != 0 { 3 } else { 2 };
    match r {
        Ok(Representation::Indexed) => assert!(want == 0),
        Ok(Representation::LiteralWithIndexing) => assert!(want == 1),
        Ok(Representation::LiteralWithoutIndexing) => assert!(want == 2),
        Ok(Representation::LiteralNeverIndexed) => assert!(want == 3),
        Ok(Representation::SizeUpdate) => assert!(want == 4),
        Err(_) => panic!("every octet is a valid representation start in RFC 7541"),
    }
    kani::cover!(true, "end");
}

// ---------------------------------------------------------------------------
// C11.block / C11.split: header blocks over a restricted alphabet
// ---------------------------------------------------------------------------
// Symbols (concrete per query, see DESIGN rule 6):
//   1 = indexed static field 2 (:method GET)        0x82
//   2 = indexed field 0 (always a decoding error)   0x80
//   3 = table-size update, one octet, value 0..=30  0x20|v      (v symbolic)
//   4 = table-size update, two octets, value 31+v   0x3f v      (v symbolic, < 128)
//   5 = indexed dynamic field 62 (empty table: err) 0xbe
//   6 = indexed static field 16 (accept-encoding)   0x90
pub(crate) fn no_literal(_d: &mut Decoder, _b: &mut Cursor<&mut BytesMut>, _i: bool) -> Result<Header, DecoderError> {
    panic!("UNREACHABLE-STUB Decoder::decode_literal")
}

/// Environment stub for `bytes::BytesMut::split_to` (KIND_VEC -> shared promotion with
/// pointer/integer tagging is intractable for CBMC): same contract - returns the first
/// `at` bytes as an independent buffer and leaves the rest in `self` - implemented by
/// copying.  `at` is concrete in every query that uses it.
pub(crate) fn stub_split_to(this: &mut BytesMut, at: usize) -> BytesMut {
    assert!(at <= this.len(), "split_to out of bounds");
    let mut head = BytesMut::with_capacity(at + 8);
    head.extend_from_slice(&this[..at]);
    bytes::Buf::advance(this, at);
    head
}

/// Restricted static table for the block harnesses: only the two entries the symbol
/// alphabet uses (2 and 16); any other index panics (unreachability).  The full table
/// is compared entry by entry with RFC 7541 Appendix A in `c11_static_table_*`.
pub(crate) fn stub_get_static_pool(idx: usize) -> Header {
    if idx == 2 {
        Header::Method(http::Method::GET)
    } else if idx == 16 {
        Header::Field { name: http::header::ACCEPT_ENCODING, value: http::HeaderValue::from_static("gzip, deflate") }
    } else {
        panic!("UNREACHABLE-STUB get_static outside the index pool")
    }
}

#[derive(Clone, Copy, PartialEq, Eq)]
enum RefOut {
    Ok(u32, usize), // digest of the field list, final table max size
    Err(u8),        // 1 = InvalidTableIndex, 2 = InvalidMaxDynamicSize
}

fn field_code(h: &Header) -> u32 {
    match h {
        Header::Method(m) if *m == http::Method::GET => 1,
        Header::Field { name, value } if *name == http::header::ACCEPT_ENCODING && value == "gzip, deflate" => 6,
        _ => 9,
    }
}

fn run_decoder(dec: &mut Decoder, buf: &mut BytesMut, digest: &mut u32) -> Result<(), DecoderError> {
    dec.decode(&mut Cursor::new(buf), |h| {
        *digest = *digest * 16 + field_code(&h);
        std::mem::forget(h);
        ControlFlow::Continue(())
    })
}

fn block<const T0: u8, const T1: u8, const T2: u8, const K: usize>() {
    let check_split = K != 99;
    let tags = [T0, T1, T2];
    let limit: usize = 4096;
    // serialise + reference decode (RFC 7541 §3.2, §4.2, §6.1, §6.3) in one pass
    let mut bytes = [0u8; 6];
    let mut n = 0usize;
    let mut want = RefOut::Ok(0, limit);
    let mut seen_field = false;
    let mut i = 0;
    while i < 3 {
        let t = tags[i];
        let mut val: usize = 0;
        if t == 1 { bytes[n] = 0x82; n += 1; }
        else if t == 2 { bytes[n] = 0x80; n += 1; }
        else if t == 5 { bytes[n] = 0xbe; n += 1; }
        else if t == 6 { bytes[n] = 0x90; n += 1; }
        else if t == 3 {
            // masked so that the representation bits stay syntactically constant
            let v: u8 = kani::any::<u8>() & 0x1f;
            kani::assume(v <= 30);
            bytes[n] = 0x20 | v; n += 1; val = v as usize;
        } else if t == 4 {
            let v: u8 = kani::any::<u8>() & 0x7f;
            bytes[n] = 0x3f; bytes[n + 1] = v; n += 2; val = 31 + v as usize;
        }
        if let RefOut::Ok(d, sz) = want {
            if t == 1 || t == 6 {
                want = RefOut::Ok(d * 16 + t as u32, sz);
                seen_field = true;
            } else if t == 2 || t == 5 {
                want = RefOut::Err(1);
            } else if t == 3 || t == 4 {
                // a size update is only legal at the beginning of a header block and
                // must not exceed the limit set by the protocol
                want = if seen_field || val > limit { RefOut::Err(2) } else { RefOut::Ok(d, val) };
            }
        }
        i += 1;
    }
    if !check_split {
        // --- whole
        let mut dec1 = Decoder::new(limit);
        let mut b1 = BytesMut::with_capacity(16);
        b1.extend_from_slice(&bytes[..n]);
        let mut d1 = 0u32;
        let r1 = run_decoder(&mut dec1, &mut b1, &mut d1);
        let got1 = match r1 {
            Ok(()) => RefOut::Ok(d1, dec1.table.max_size),
            Err(DecoderError::InvalidTableIndex) => RefOut::Err(1),
            Err(DecoderError::InvalidMaxDynamicSize) => RefOut::Err(2),
            Err(_) => RefOut::Err(99),
        };
        assert!(got1 == want, "C11.block: whole-block decoding differs from RFC 7541");
        assert!(dec1.table.size <= dec1.table.max_size, "dynamic table above its limit");
        std::mem::forget(dec1);
        std::mem::forget(b1);
    } else {
        // --- split at byte offset K, resuming as HeaderBlock::load does: the undecoded
        // tail is carried over and the next fragment appended.  (The carried tail is
        // copied into a fresh buffer: appending to a buffer that was advanced is the
        // same operation for `BytesMut` but did not finish symbolically.)  The split
        // offset is concrete per query; all offsets 0..=len are separate queries.
        let k: usize = K;
        assert!(k <= n);
        // start offset of the symbol containing byte k (k itself when on a boundary)
        let mut carry_from = 0usize;
        {
            let mut pos = 0usize;
            let mut i = 0;
            while i < 3 {
                let len = if tags[i] == 4 { 2 } else if tags[i] == 0 { 0 } else { 1 };
                if pos + len <= k {
                    carry_from = pos + len;
                }
                pos += len;
                i += 1;
            }
            if carry_from > k { carry_from = k; }
        }
        let mut dec2 = Decoder::new(limit);
        let mut b2 = BytesMut::with_capacity(16);
        b2.extend_from_slice(&bytes[..k]);
        let mut d2 = 0u32;
        let ra = run_decoder(&mut dec2, &mut b2, &mut d2);
        let rb = match ra {
            Ok(()) | Err(DecoderError::NeedMore(_)) => {
                // what the decoder left undecoded must be exactly the bytes of the symbol
                // that the split cut through (`carry_from` = start of that symbol)
                assert!(b2.len() == k - carry_from, "C11.split: wrong number of bytes carried over after a shortfall");
                let mut j = 0;
                while j < b2.len() {
                    assert!(b2[j] == bytes[carry_from + j], "C11.split: carried bytes differ from the input");
                    j += 1;
                }
                // continuation buffer = carried tail + next fragment, taken from the input
                // array (equal to the carried buffer by the assertions above; copying
                // heap-to-heap makes the second call's input opaque to CBMC)
                let mut b3 = BytesMut::with_capacity(16);
                b3.extend_from_slice(&bytes[carry_from..n]);
                let r = run_decoder(&mut dec2, &mut b3, &mut d2);
                std::mem::forget(b3);
                r
            }
            Err(e) => Err(e),
        };
        let got2 = match rb {
            Ok(()) => RefOut::Ok(d2, dec2.table.max_size),
            Err(DecoderError::InvalidTableIndex) => RefOut::Err(1),
            Err(DecoderError::InvalidMaxDynamicSize) => RefOut::Err(2),
            Err(_) => RefOut::Err(99),
        };
        assert!(got2 == want, "C11.split: feeding the block in two pieces differs from RFC 7541 / from feeding it whole");
        assert!(dec2.table.size <= dec2.table.max_size, "dynamic table above its limit");
        std::mem::forget(dec2);
        std::mem::forget(b2);
    }
    kani::cover!(true, "end");
}
// generated wrappers: see tools/gen_block_obligations.py
include!(concat!(env!("H2_VERIF_DIR"), "/harness/hpack/decoder_block_wrappers.rs"));

// ---------------------------------------------------------------------------
// C11: the decoder's dynamic table against the RFC 7541 §4 list model
// ---------------------------------------------------------------------------
fn pool_header(sel: u8) -> (Header, usize, u32) {
    // sizes per RFC 7541 §4.1: name + value + 32
    match sel {
        0 => (Header::Path(BytesStr::from_static("/")), 5 + 1 + 32, 1),
        1 => (Header::Method(http::Method::GET), 7 + 3 + 32, 2),
        _ => (Header::Path(BytesStr::from_static("/index.html")), 5 + 11 + 32, 3),
    }
}
fn entry_code(h: &Header) -> u32 {
    match h {
        Header::Path(p) if p.as_str() == "/" => 1,
        Header::Method(_) => 2,
        Header::Path(_) => 3,
        _ => 9,
    }
}

/// Three operations, each an insertion of a pool entry (sizes 38/42/48) or a change
/// of the maximum size (0..=140), compared step by step with the list model: entries
/// are evicted from the end until the new one fits; an entry larger than the table
/// empties it and is not added; lowering the maximum evicts; index 62+i resolves to the
/// i-th newest entry and anything beyond is an error.
pub fn c11_dyn_table_model_ii() { dyn_table_model([true, true, false], 2) }
pub fn c11_dyn_table_model_isi() { dyn_table_model([true, false, true], 3) }
pub fn c11_dyn_table_model_iis() { dyn_table_model([true, true, false], 3) }
/// `kinds[i]`: step i is an insertion (true) or a size change (false); concrete per query
fn dyn_table_model(kinds: [bool; 3], steps: usize) {
    let max0: usize = kani::any();
    kani::assume(max0 <= 140);
    let mut t = Table::new(max0);
    t.entries = VecDeque::with_capacity(8);
    // model: newest first
    let mut m_code = [0u32; 4];
    let mut m_size = [0usize; 4];
    let mut m_len = 0usize;
    let mut m_total = 0usize;
    let mut m_max = max0;
    let mut step = 0;
    while step < steps {
        let is_insert: bool = kinds[step];
        if is_insert {
            let sel: u8 = kani::any();
            kani::assume(sel < 3);
            let (h, sz, code) = pool_header(sel);
            assert!(h.len() == sz, "Header::len differs from RFC 7541 4.1 (name + value + 32)");
            t.insert(h);
            // model: evict from the end until it fits
            while m_len > 0 && m_total + sz > m_max {
                m_len -= 1;
                m_total -= m_size[m_len];
            }
            if sz <= m_max {
                let mut i = m_len;
                while i > 0 {
                    m_code[i] = m_code[i - 1];
                    m_size[i] = m_size[i - 1];
                    i -= 1;
                }
                m_code[0] = code;
                m_size[0] = sz;
                m_len += 1;
                m_total += sz;
            }
        } else {
            let nm: usize = kani::any();
            kani::assume(nm <= 140);
            t.set_max_size(nm);
            m_max = nm;
            while m_len > 0 && m_total > m_max {
                m_len -= 1;
                m_total -= m_size[m_len];
            }
        }
        assert!(t.size == m_total, "C11: dynamic table size differs from the RFC 7541 model");
        assert!(t.size <= t.max_size, "C11: dynamic table above its limit");
        assert!(t.entries.len() == m_len, "C11: number of dynamic entries differs from the RFC 7541 model (stale or missing entries)");
        step += 1;
    }
    // index space: 62 + i
    let mut i = 0;
    while i < 4 {
        let r = t.get(62 + i);
        if i < m_len {
            match &r {
                Ok(h) => assert!(entry_code(h) == m_code[i], "C11: dynamic index resolves to the wrong entry"),
                Err(_) => panic!("C11: valid dynamic index rejected"),
            }
        } else {
            assert!(matches!(&r, Err(DecoderError::InvalidTableIndex)), "C11: index beyond the dynamic table accepted");
        }
        std::mem::forget(r);
        i += 1;
    }
    assert!(matches!(t.get(0), Err(DecoderError::InvalidTableIndex)));
    kani::cover!(m_len == 0 && m_max > 0, "emptied");
    kani::cover!(true, "end");
    std::mem::forget(t);
}

/// Single insertion step from a table holding one entry (`:method GET`, 42 octets) with a
/// symbolic maximum size (42..=140): RFC 7541 4.4 - an entry larger than the maximum
/// empties the table; otherwise old entries are evicted until it fits.
fn dyn_table_insert_step(sel: u8) {
    let max: usize = kani::any();
    kani::assume(max >= 42 && max <= 140);
    let mut t = Table::new(max);
    t.entries = VecDeque::with_capacity(4);
    t.insert(Header::Method(http::Method::GET));
    assert!(t.size == 42 && t.entries.len() == 1);
    let (h, sz, _code) = pool_header(sel);
    t.insert(h);
    if sz > max {
        assert!(t.entries.len() == 0 && t.size == 0, "C11: an entry larger than the table must empty it (RFC 7541 4.4) - stale entries stay addressable");
        assert!(matches!(t.get(62), Err(DecoderError::InvalidTableIndex)), "C11: index into an emptied table accepted");
    } else if 42 + sz > max {
        assert!(t.entries.len() == 1 && t.size == sz, "C11: eviction did not make room for the new entry");
    } else {
        assert!(t.entries.len() == 2 && t.size == 42 + sz);
    }
    assert!(t.size <= t.max_size, "C11: dynamic table above its limit");
    kani::cover!(sz > max, "oversized");
    kani::cover!(true, "end");
    std::mem::forget(t);
}
pub fn c11_dyn_table_insert_small() { dyn_table_insert_step(0) }
pub fn c11_dyn_table_insert_large() { dyn_table_insert_step(2) }
