// harness bodies for h2 src/hpack/table.rs (compiled in-crate as `verif_h`, feature "verif")
use super::*;

pub(crate) fn size(t: &Table) -> usize {
    t.size
}
