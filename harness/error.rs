// harness bodies for h2 src/error.rs (compiled in-crate as `verif_h`, feature "verif")
