// harness bodies for h2 src/client.rs (compiled in-crate as `verif_h`, feature "verif")
use super::*;
use crate::hpack::BytesStr;
use crate::proto::Peer as _;

/// C13.cli: what the client accepts as a response head.  Reference (RFC 9113 §8.3.2):
/// a response carries exactly one `:status` pseudo-header field and no request
/// pseudo-header fields; anything else is malformed and must not be delivered.
/// Presence bits symbolic, values from a concrete pool.
pub fn c13_cli_response_pseudo() {
    let has_status: bool = kani::any();
    let has_method: bool = kani::any();
    let has_scheme: bool = kani::any();
    let has_authority: bool = kani::any();
    let has_path: bool = kani::any();
    let status_sel: u8 = kani::any();
    let status = match status_sel % 4 {
        0 => http::StatusCode::CONTINUE,
        1 => http::StatusCode::OK,
        2 => http::StatusCode::NO_CONTENT,
        _ => http::StatusCode::NOT_MODIFIED,
    };
    let pseudo = Pseudo {
        method: if has_method { Some(Method::GET) } else { None },
        scheme: if has_scheme { Some(BytesStr::from_static("https")) } else { None },
        authority: if has_authority { Some(BytesStr::from_static("a")) } else { None },
        path: if has_path { Some(BytesStr::from_static("/")) } else { None },
        protocol: None,
        status: if has_status { Some(status) } else { None },
    };
    let r = Peer::convert_poll_message(pseudo, HeaderMap::new(), StreamId::from(1));
    let accepted = r.is_ok();
    if let Ok(resp) = &r {
        if has_status {
            assert!(resp.status() == status, "delivered status differs from the :status received");
        }
    }
    // one labelled rule per assertion
    if accepted {
        assert!(has_status, "C13.cli R-status-required: response without :status delivered");
    }
    if accepted {
        assert!(!(has_method || has_scheme || has_authority || has_path),
            "C13.cli R-no-request-pseudo: response carrying request pseudo-header fields delivered");
    }
    kani::cover!(accepted && has_status, "accepted_valid");
    kani::cover!(true, "end");
    std::mem::forget(r);
}
