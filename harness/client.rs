// harness bodies for h2 src/client.rs (compiled in-crate as `verif_h`, feature "verif")
