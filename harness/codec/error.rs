// harness bodies for h2 src/codec/error.rs (compiled in-crate as `verif_h`, feature "verif")
