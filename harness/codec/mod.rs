// re-exports for h2 src/codec/mod.rs: harness entry points (`pub fn`) of the child modules.
#[allow(unused_imports)]
pub use super::framed_read::verif_h::*;
#[allow(unused_imports)]
pub use super::framed_write::verif_h::*;
#[allow(unused_imports)]
pub use super::error::verif_h::*;

use super::*;
pub(crate) use super::framed_write::verif_h::Mock;

/// A real `Codec` over the mock transport with shrunk write-buffer sizes.
pub(crate) fn mk_codec<B: Buf>(mock: Mock) -> Codec<Mock, B> {
    let mut c: Codec<Mock, B> = Codec::new(mock);
    super::framed_write::verif_h::shrink(c.inner.get_mut());
    c
}
pub(crate) fn codec_buffered<B>(c: &Codec<Mock, B>) -> &[u8] {
    super::framed_write::verif_h::buffered(c.inner.get_ref())
}
pub(crate) fn codec_set_blocked<B>(c: &mut Codec<Mock, B>, blocked: bool) {
    super::framed_write::verif_h::set_blocked(c.inner.get_mut(), blocked)
}
pub(crate) fn codec_mock<B>(c: &mut Codec<Mock, B>) -> &mut Mock {
    c.inner.get_mut().get_mut()
}
pub(crate) use super::framed_write::verif_h::EXP;
