// re-exports for h2 src/codec/mod.rs: harness entry points (`pub fn`) of the child modules.
#[allow(unused_imports)]
pub use super::framed_read::verif_h::*;
#[allow(unused_imports)]
pub use super::framed_write::verif_h::*;
#[allow(unused_imports)]
pub use super::error::verif_h::*;
