// harness bodies for h2 src/codec/framed_read.rs (compiled in-crate as `verif_h`, feature "verif")
