// harness bodies for h2 src/codec/framed_read.rs (compiled in-crate as `verif_h`, feature "verif")
use super::*;

/// C18.cont: `calc_max_continuation_frames` for every (header list limit, frame size)
/// with frame size >= 2^14 (the SETTINGS_MAX_FRAME_SIZE floor): at least 5, at least the
/// frames needed to carry a maximal header list, at most 25 % + 1 above that, monotone
/// in the header limit, no overflow or division by zero.
pub fn c18_cont_max_frames_arith_16k() { cont_max_frames_arith(16_384) }
pub fn c18_cont_max_frames_arith_64k() { cont_max_frames_arith(65_536) }
pub fn c18_cont_max_frames_arith_16m() { cont_max_frames_arith(16_777_215) }
// the frame size is concrete per query: a 64-bit symbolic / symbolic division did not
// finish in 900 s (bit-blasted divider); division by a constant does
fn cont_max_frames_arith(frame_max: usize) {
    let header_max: usize = kani::any();
    let m = calc_max_continuation_frames(header_max, frame_max);
    let need = header_max / frame_max;
    assert!(m >= 5, "fewer than 5 CONTINUATION frames allowed");
    assert!(m >= need, "limit below what a maximal legal header list needs");
    let base = if need > 1 { need } else { 1 };
    assert!(m as u128 <= (base as u128 + (base as u128 >> 2)).max(5), "limit more than 25% above the need");
    let header_max2: usize = kani::any();
    kani::assume(header_max2 >= header_max);
    assert!(calc_max_continuation_frames(header_max2, frame_max) >= m, "not monotone in the header list limit");
    kani::cover!(m > 5, "large");
    kani::cover!(true, "end");
}

#[derive(PartialEq, Eq, Clone, Copy)]
enum Class {
    Frame(u8),   // decoded frame of this wire type
    Ignored,     // Ok(None)
    ConnError,   // GOAWAY(PROTOCOL_ERROR)
    StreamError, // RST_STREAM(PROTOCOL_ERROR)
    Other,
}

fn classify(r: &Result<Option<Frame>, Error>) -> Class {
    match r {
        Ok(None) => Class::Ignored,
        Ok(Some(f)) => Class::Frame(match f {
            Frame::Data(_) => 0,
            Frame::Headers(_) => 1,
            Frame::Priority(_) => 2,
            Frame::Reset(_) => 3,
            Frame::Settings(_) => 4,
            Frame::PushPromise(_) => 5,
            Frame::Ping(_) => 6,
            Frame::GoAway(_) => 7,
            Frame::WindowUpdate(_) => 8,
        }),
        Err(Error::GoAway(_, Reason::PROTOCOL_ERROR, crate::proto::Initiator::Library)) => Class::ConnError,
        Err(Error::Reset(_, Reason::PROTOCOL_ERROR, crate::proto::Initiator::Library)) => Class::StreamError,
        Err(_) => Class::Other,
    }
}

/// C09.frame / C08: `decode_frame` on a frame of concrete wire type KIND and payload
/// length N with symbolic flags, stream id and payload, no header block in progress.
/// Reference: RFC 9113 §6 size / stream-id rules (violations of rules that corrupt
/// connection state => connection error; PRIORITY self-dependency => stream error;
/// unknown types ignored).
fn decode_fixed<const KIND: u8, const N: usize>() {
    let flags: u8 = kani::any();
    let sid: u32 = kani::any();
    kani::assume(sid <= 0x7fff_ffff);
    let payload: [u8; N] = kani::any();
    let mut bytes = BytesMut::with_capacity(9 + N + 8);
    bytes.extend_from_slice(&[0, 0, N as u8, KIND, flags]);
    bytes.extend_from_slice(&sid.to_be_bytes());
    bytes.extend_from_slice(&payload);
    let mut hpack = hpack::Decoder::new(4096);
    let mut partial: Option<Partial> = None;
    let r = decode_frame(&mut hpack, 16 << 20, 5, &mut partial, bytes);
    let got = classify(&r);
    let be = |i: usize| -> u32 { ((payload[i] as u32) << 24) | ((payload[i + 1] as u32) << 16) | ((payload[i + 2] as u32) << 8) | (payload[i + 3] as u32) };
    let want = match KIND {
        6 => if sid == 0 && N == 8 { Class::Frame(6) } else { Class::ConnError },
        3 => if N == 4 { Class::Frame(3) } else { Class::ConnError },
        8 => if N == 4 && (be(0) & 0x7fff_ffff) != 0 { Class::Frame(8) } else { Class::ConnError },
        2 => if sid == 0 || N != 5 { Class::ConnError } else if (be(0) & 0x7fff_ffff) == sid { Class::StreamError } else { Class::Frame(2) },
        7 => if N >= 8 { Class::Frame(7) } else { Class::ConnError },
        0 => {
            // DATA: stream 0 is a connection error; PADDED with pad length >= payload is too
            let padded = flags & 0x8 != 0;
            if sid == 0 || (padded && (N == 0 || payload[0] as usize >= N)) { Class::ConnError } else { Class::Frame(0) }
        }
        4 => {
            // SETTINGS: stream 0 only; ACK must be empty; length multiple of 6; value ranges
            let ack = flags & 1 != 0;
            let ok = if ack { N == 0 } else if N % 6 != 0 { false } else if N == 0 { true } else {
                let id = ((payload[0] as u16) << 8) | payload[1] as u16;
                let v = be(2);
                match id { 2 | 8 => v <= 1, 4 => v <= 0x7fff_ffff, 5 => v >= 16_384 && v <= 16_777_215, _ => true }
            };
            if sid == 0 && ok { Class::Frame(4) } else { Class::ConnError }
        }
        9 => Class::ConnError, // CONTINUATION without a preceding HEADERS / PUSH_PROMISE
        _ => Class::Ignored,   // unknown frame types
    };
    assert!(got == want, "C09.frame: decode_frame classification differs from RFC 9113 section 6");
    assert!(partial.is_none());
    kani::cover!(matches!(got, Class::Frame(_)), "accepted");
    kani::cover!(true, "end");
    std::mem::forget(r);
    std::mem::forget(hpack);
}
pub fn c09_decode_ping_8() { decode_fixed::<6, 8>() }
pub fn c09_decode_ping_7() { decode_fixed::<6, 7>() }
pub fn c09_decode_reset_4() { decode_fixed::<3, 4>() }
pub fn c09_decode_reset_5() { decode_fixed::<3, 5>() }
pub fn c09_decode_window_update_4() { decode_fixed::<8, 4>() }
pub fn c09_decode_window_update_3() { decode_fixed::<8, 3>() }
pub fn c09_decode_priority_5() { decode_fixed::<2, 5>() }
pub fn c09_decode_priority_4() { decode_fixed::<2, 4>() }
pub fn c09_decode_goaway_8() { decode_fixed::<7, 8>() }
pub fn c09_decode_goaway_7() { decode_fixed::<7, 7>() }
pub fn c09_decode_continuation_orphan() { decode_fixed::<9, 4>() }
pub fn c09_decode_unknown_type() { decode_fixed::<0x42, 6>() }
pub fn c09_decode_data_4() { decode_fixed::<0, 4>() }
pub fn c09_decode_data_0() { decode_fixed::<0, 0>() }
pub fn c09_decode_settings_6() { decode_fixed::<4, 6>() }
pub fn c09_decode_settings_5() { decode_fixed::<4, 5>() }
pub fn c09_decode_settings_0() { decode_fixed::<4, 0>() }
