// harness bodies for h2 src/codec/framed_write.rs (compiled in-crate as `verif_h`, feature "verif")
//
// C01.write / C12.write / C12.max: whatever the transport accepts, concatenated, is a
// prefix of serialize(frame); after flush returns Ready(Ok) it is all of it; a write
// of zero bytes is WriteZero; the DATA frame is handed back only after its last byte.
use super::*;
use std::task::Waker;

pub(crate) const EXP: usize = 40;

/// Transport: accepts an arbitrary non-empty prefix of what it is offered (or returns
/// Pending) for at most `budget` calls, then accepts everything.  Instead of copying,
/// it checks one *symbolic* position of every accepted chunk against the expected
/// serialization - the solver thereby checks all positions.
pub(crate) struct Mock {
    pub expect: [u8; EXP],
    pub total: usize,
    pub n: usize,
    pub budget: u8,
    pub allow_zero: bool,
    pub flushed: bool,
}
impl Mock {
    pub(crate) fn new(expect: [u8; EXP], total: usize, budget: u8) -> Mock {
        Mock { expect, total, n: 0, budget, allow_zero: false, flushed: false }
    }
}
impl AsyncWrite for Mock {
    fn poll_write(mut self: Pin<&mut Self>, _cx: &mut Context<'_>, buf: &[u8]) -> Poll<io::Result<usize>> {
        assert!(!buf.is_empty(), "transport offered an empty chunk while bytes remain");
        let mut k = buf.len();
        if self.budget > 0 {
            self.budget -= 1;
            if kani::any() {
                return Poll::Pending;
            }
            k = kani::any();
            kani::assume(k <= buf.len());
            if k == 0 {
                kani::assume(self.allow_zero);
                return Poll::Ready(Ok(0));
            }
        }
        assert!(self.n + k <= self.total, "C12.write: more bytes written than the frame serialises to (duplication)");
        let j: usize = kani::any();
        kani::assume(j < k);
        assert!(buf[j] == self.expect[self.n + j], "C12.write: byte differs from serialize(frame) (drop/reorder/corruption)");
        self.n += k;
        Poll::Ready(Ok(k))
    }
    fn poll_flush(mut self: Pin<&mut Self>, _cx: &mut Context<'_>) -> Poll<io::Result<()>> {
        self.flushed = true;
        Poll::Ready(Ok(()))
    }
    fn poll_shutdown(self: Pin<&mut Self>, _cx: &mut Context<'_>) -> Poll<io::Result<()>> {
        Poll::Ready(Ok(()))
    }
}

/// payload with content: 8 symbolic bytes, `len` of them used
#[derive(Debug)]
pub(crate) struct ArrBuf {
    pub data: [u8; 8],
    pub pos: usize,
    pub len: usize,
}
impl Buf for ArrBuf {
    fn remaining(&self) -> usize {
        self.len - self.pos
    }
    fn chunk(&self) -> &[u8] {
        &self.data[self.pos..self.len]
    }
    fn advance(&mut self, cnt: usize) {
        assert!(cnt <= self.len - self.pos, "advance past the end");
        self.pos += cnt;
    }
}

/// reference serializer: RFC 9113 §4.1 head + payload
fn ref_frame(ty: u8, flags: u8, sid: u32, payload: &[u8]) -> ([u8; EXP], usize) {
    let mut e = [0u8; EXP];
    let l = payload.len();
    e[0] = (l >> 16) as u8;
    e[1] = (l >> 8) as u8;
    e[2] = l as u8;
    e[3] = ty;
    e[4] = flags;
    e[5] = (sid >> 24) as u8;
    e[6] = (sid >> 16) as u8;
    e[7] = (sid >> 8) as u8;
    e[8] = sid as u8;
    let mut i = 0;
    while i < l {
        e[9 + i] = payload[i];
        i += 1;
    }
    (e, 9 + l)
}

/// A `FramedWrite` over the mock with *shrunk sizes* (DESIGN §2.3): 64-byte write buffer
/// instead of 16 KiB and a chain threshold of 4 instead of 256/1024.  The code only
/// compares against these fields; the frames used here are <= 17 bytes.
fn small_fw<B: Buf>(mock: Mock) -> FramedWrite<Mock, B> {
    let mut fw: FramedWrite<Mock, B> = FramedWrite::new(mock);
    fw.encoder.buf = Cursor::new(BytesMut::with_capacity(64));
    fw.encoder.chain_threshold = 4;
    fw.encoder.min_buffer_capacity = 4 + 9;
    fw
}

/// drives `flush` until Ready or `max_calls` (every Pending consumes mock budget)
fn drive_flush<B: Buf>(fw: &mut FramedWrite<Mock, B>, max_calls: usize) -> Option<io::Result<()>> {
    let waker = Waker::noop();
    let mut cx = Context::from_waker(&waker);
    let mut i = 0;
    while i < max_calls {
        match fw.flush(&mut cx) {
            Poll::Ready(r) => return Some(r),
            Poll::Pending => {}
        }
        i += 1;
    }
    None
}

fn any_sid() -> u32 {
    let s: u32 = kani::any();
    kani::assume(s >= 1 && s <= 0x7fff_ffff);
    s
}

/// control frames: kind 0 = PING, 1 = RST_STREAM, 2 = WINDOW_UPDATE
fn write_control(kind: u8, budget: u8) {
    let (frame, expect, total): (Frame<ArrBuf>, [u8; EXP], usize) = if kind == 0 {
        let p: [u8; 8] = kani::any();
        let ack: bool = kani::any();
        let (e, t) = ref_frame(6, ack as u8, 0, &p);
        (if ack { frame::Ping::pong(p).into() } else { frame::Ping::new(p).into() }, e, t)
    } else if kind == 1 {
        let sid = any_sid();
        let code: u32 = kani::any();
        let (e, t) = ref_frame(3, 0, sid, &code.to_be_bytes());
        (frame::Reset::new(sid.into(), code.into()).into(), e, t)
    } else {
        let sid: u32 = kani::any();
        kani::assume(sid <= 0x7fff_ffff);
        let inc: u32 = kani::any();
        kani::assume(inc >= 1 && inc <= 0x7fff_ffff);
        let (e, t) = ref_frame(8, 0, sid, &inc.to_be_bytes());
        (frame::WindowUpdate::new(sid.into(), inc).into(), e, t)
    };
    let mut fw: FramedWrite<Mock, ArrBuf> = small_fw(Mock::new(expect, total, budget));
    assert!(fw.has_capacity());
    fw.buffer(frame).unwrap();
    let r = drive_flush(&mut fw, budget as usize + 1);
    match &r {
        Some(Ok(())) => {
            assert!(fw.inner.n == total, "C12.write: flush reported success before every byte was written");
            assert!(fw.inner.flushed, "transport not flushed");
            assert!(fw.has_capacity(), "encoder not reusable after a complete flush");
        }
        Some(Err(_)) => panic!("flush failed although the transport never failed"),
        None => panic!("flush still Pending after the transport stopped returning Pending"),
    }
    assert!(fw.take_last_data_frame().is_none(), "a control frame produced a reclaimable DATA frame");
    kani::cover!(fw.inner.budget == 0 && budget > 0, "partial_writes_used");
    kani::cover!(true, "end");
    std::mem::forget(r);
    std::mem::forget(fw);
}
pub fn c12_write_ping() { write_control(0, 2) }
pub fn c12_write_reset() { write_control(1, 2) }
pub fn c12_write_window_update() { write_control(2, 2) }

/// DATA frames.  `chained`: payload >= chain threshold (threshold shrunk to 4 so that 4..=8
/// byte payloads take the chained path: head in the buffer, payload written from the
/// user's buffer); otherwise the whole frame is copied into the write buffer.
fn write_data(len: usize, budget: u8) {
    // payload length concrete per query (a symbolic-length copy did not finish symbolic execution)
    let chained = len >= 4;
    let data: [u8; 8] = kani::any();
    let sid = any_sid();
    let eos: bool = kani::any();
    let (expect, total) = ref_frame(0, eos as u8, sid, &data[..len]);
    let mut fw: FramedWrite<Mock, ArrBuf> = small_fw(Mock::new(expect, total, budget));
    let mut d = frame::Data::new(sid.into(), ArrBuf { data, pos: 0, len });
    d.set_end_stream(eos);
    fw.buffer(d.into()).unwrap();
    if !chained {
        // fully encoded by `buffer`: handed back at once (the slot is reclaimed by the caller)
    } else {
        assert!(fw.encoder.last_data_frame.is_none(), "C01.write: chained DATA handed back before its last byte was written");
        assert!(!fw.has_capacity(), "another frame could be interleaved into a chained DATA frame");
    }
    let r = drive_flush(&mut fw, budget as usize + 1);
    match &r {
        Some(Ok(())) => {
            assert!(fw.inner.n == total, "C12.write: flush reported success before every byte was written");
        }
        Some(Err(_)) => panic!("flush failed although the transport never failed"),
        None => panic!("flush still Pending after the transport stopped returning Pending"),
    }
    match fw.take_last_data_frame() {
        Some(back) => {
            assert!(back.payload().remaining() == 0, "reclaimed DATA frame still has unwritten bytes");
            assert!(back.is_end_stream() == eos && u32::from(back.stream_id()) == sid);
            std::mem::forget(back);
        }
        None => panic!("C01.write: written DATA frame was not handed back for reclaim"),
    }
    assert!(fw.take_last_data_frame().is_none(), "DATA frame handed back twice");
    kani::cover!(fw.inner.budget == 0 && budget > 0, "partial_writes_used");
    kani::cover!(true, "end");
    std::mem::forget(r);
    std::mem::forget(fw);
}
pub fn c12_write_data_len0() { write_data(0, 2) }
pub fn c12_write_data_len3() { write_data(3, 2) }
pub fn c12_write_data_len4() { write_data(4, 1) }
pub fn c12_write_data_len8() { write_data(8, 1) }

/// a transport that accepts zero bytes => WriteZero, never a busy loop or silent success
pub fn c12_write_zero() {
    let p: [u8; 8] = kani::any();
    let (e, t) = ref_frame(6, 0, 0, &p);
    let mut mock = Mock::new(e, t, 1);
    mock.allow_zero = true;
    let mut fw: FramedWrite<Mock, ArrBuf> = small_fw(mock);
    fw.buffer(frame::Ping::new(p).into()).unwrap();
    let waker = Waker::noop();
    let mut cx = Context::from_waker(&waker);
    let r = fw.flush(&mut cx);
    match &r {
        Poll::Ready(Err(e)) => assert!(e.kind() == io::ErrorKind::WriteZero && fw.inner.n == 0),
        Poll::Ready(Ok(())) => assert!(fw.inner.n == t, "success reported without writing everything"),
        Poll::Pending => assert!(fw.inner.n == 0),
    }
    kani::cover!(matches!(&r, Poll::Ready(Err(_))), "write_zero");
    kani::cover!(true, "end");
    std::mem::forget(r);
    std::mem::forget(fw);
}

/// C12.max: DATA larger than the peer's MAX_FRAME_SIZE is refused and nothing is buffered.
pub fn c12_max_data_too_big() {
    let max: usize = kani::any();
    kani::assume(max >= 16_384 && max <= 16_777_215);
    let rem: usize = kani::any();
    let mut fw: FramedWrite<Mock, crate::proto::verif_h::SymBuf> = FramedWrite::new(Mock::new([0; EXP], 0, 0));
    fw.set_max_frame_size(max);
    // small frames only (large ones would be written from the payload: covered by c12_write_data_chained)
    kani::assume(rem > max || rem < 4);
    let d = frame::Data::new(frame::StreamId::from(1), crate::proto::verif_h::SymBuf { off: 0, rem });
    let r = fw.buffer(d.into());
    match &r {
        Ok(()) => assert!(rem <= max),
        Err(e) => {
            assert!(rem > max, "legal DATA refused");
            assert!(matches!(e, UserError::PayloadTooBig));
            assert!(fw.encoder.buf.get_ref().is_empty() && fw.encoder.next.is_none() && fw.encoder.last_data_frame.is_none(),
                "something was buffered for a refused frame");
        }
    }
    kani::cover!(r.is_err(), "refused");
    kani::cover!(true, "end");
    std::mem::forget(fw);
}

/// bytes currently in the write buffer (not yet handed to the transport)
pub(crate) fn buffered<T, B>(fw: &FramedWrite<T, B>) -> &[u8] {
    let pos = fw.encoder.buf.position() as usize;
    &fw.encoder.buf.get_ref()[pos..]
}
pub(crate) fn shrink<T, B>(fw: &mut FramedWrite<T, B>) {
    fw.encoder.buf = Cursor::new(BytesMut::with_capacity(64));
    fw.encoder.chain_threshold = 4;
    fw.encoder.min_buffer_capacity = 4 + 9;
}
/// make the encoder report "no capacity" (a frame is still being written)
pub(crate) fn set_blocked<T, B>(fw: &mut FramedWrite<T, B>, blocked: bool) {
    fw.encoder.min_buffer_capacity = if blocked { usize::MAX / 2 } else { 4 + 9 };
}
impl AsyncRead for Mock {
    fn poll_read(self: Pin<&mut Self>, _cx: &mut Context<'_>, _buf: &mut ReadBuf<'_>) -> Poll<io::Result<()>> {
        Poll::Pending
    }
}

/// C12.write / C01.write: conservation at `Encoder::buffer` for DATA around the chain
/// threshold.  For a *symbolic* threshold T (10..=16) and payload length (0..=16): what
/// is pending after `buffer` (write buffer + the chained remainder) is exactly
/// 9 + len bytes, and `is_empty()` says so - otherwise `flush` would skip the frame
/// (drop) or write bytes twice.  The real thresholds (256 / 1024) are instances of T up
/// to the stated bound on T.
pub fn c12_buffer_data_conservation() {
    use crate::proto::verif_h::SymBuf;
    let mut fw: FramedWrite<Mock, SymBuf> = FramedWrite::new(Mock::new([0; EXP], 0, 0));
    fw.encoder.buf = Cursor::new(BytesMut::with_capacity(64));
    let t: usize = kani::any();
    kani::assume(t >= 10 && t <= 16);
    fw.encoder.chain_threshold = t;
    fw.encoder.min_buffer_capacity = t + 9;
    let len: usize = kani::any();
    kani::assume(len <= 16);
    let eos: bool = kani::any();
    let mut d = frame::Data::new(frame::StreamId::from(1), SymBuf { off: 0, rem: len });
    d.set_end_stream(eos);
    assert!(fw.has_capacity());
    fw.buffer(d.into()).unwrap();
    let in_buf = buffered(&fw).len();
    let chained = match &fw.encoder.next {
        Some(Next::Data(f)) => f.payload().rem,
        Some(Next::Continuation(_)) => panic!("continuation after DATA"),
        None => 0,
    };
    assert!(in_buf + chained == 9 + len, "C12.write: bytes pending after buffer(DATA) != 9 + payload length (dropped or duplicated)");
    assert!(in_buf >= 9, "frame head not in the write buffer");
    assert!(!fw.encoder.is_empty(), "C12.write: encoder claims to be empty while a frame is pending - flush would drop it");
    // the head in the buffer announces the full payload length
    let b = buffered(&fw);
    assert!(b[0] == 0 && b[1] == 0 && b[2] as usize == len && b[3] == 0 && b[4] == eos as u8, "DATA head");
    // handed back for reclaim only when nothing is chained
    assert!(fw.encoder.last_data_frame.is_some() == fw.encoder.next.is_none(), "reclaim slot vs chained frame");
    kani::cover!(chained > 0 && in_buf > 9, "topped_up_and_chained");
    kani::cover!(len + 9 == t, "len_plus_head_equals_threshold");
    kani::cover!(fw.encoder.next.is_none(), "copied");
    kani::cover!(true, "end");
    std::mem::forget(fw);
}

/// C04.contiguous: while the remainder of a header block (`Next::Continuation`) or of a
/// chained DATA payload (`Next::Data`) is parked in the encoder, the codec accepts no
/// other frame - whatever room the write buffer has - and `poll_ready` does not report
/// readiness while the transport refuses the parked bytes.  Otherwise a frame is written
/// between HEADERS and its CONTINUATION (RFC 9113 §6.10: connection error at the peer).
fn no_frame_while_parked(cont: bool) {
    let mut mock = Mock::new([0u8; EXP], 0, 0);
    let mut fw: FramedWrite<Mock, ArrBuf> = small_fw(mock);
    assert!(fw.has_capacity());
    let sid = any_sid();
    fw.encoder.next = Some(if cont {
        Next::Continuation(crate::frame::verif_h::mk_continuation(sid.into()))
    } else {
        let data: [u8; 8] = kani::any();
        Next::Data(frame::Data::new(sid.into(), ArrBuf { data, pos: 0, len: 8 }))
    });
    assert!(!fw.has_capacity(),
        "C04: the codec accepts another frame while the rest of a header block / DATA payload is still parked (frame interleaved before CONTINUATION)");
    kani::cover!(true, "end");
    std::mem::forget(fw);
}
pub fn c04_write_no_frame_before_continuation() { no_frame_while_parked(true) }
pub fn c04_write_no_frame_before_data_tail() { no_frame_while_parked(false) }
