// Native end-to-end reproduction (append to tests/h2-tests/tests/push_promise.rs):
// before the fix it panics with `assertion failed: self.can_inc_num_recv_streams()`
// (src/proto/streams/counts.rs) and poisons the streams mutex.
#[tokio::test]
async fn verif_pushed_responses_beyond_max_concurrent_streams_do_not_panic() {
    h2_support::trace_init!();

    let (io, mut srv) = mock::new();
    let mock = async move {
        let _settings = srv.assert_client_handshake().await;
        srv.recv_frame(
            frames::headers(1)
                .request("GET", "https://http2.akamai.com/")
                .eos(),
        )
        .await;
        // two promises while no pushed stream is active yet: both are reserved
        srv.send_frame(frames::push_promise(1, 2).request("GET", "https://http2.akamai.com/a.css"))
            .await;
        srv.send_frame(frames::push_promise(1, 4).request("GET", "https://http2.akamai.com/b.css"))
            .await;
        // both pushed responses start (no END_STREAM): the second exceeds the limit of 1
        srv.send_frame(frames::headers(2).response(200)).await;
        srv.send_frame(frames::headers(4).response(200)).await;
        srv.send_frame(frames::headers(1).response(200).eos()).await;
        idle_ms(50).await;
    };
    let h2 = async move {
        let (mut client, mut h2) = client::Builder::new()
            .max_concurrent_streams(1)
            .handshake::<_, Bytes>(io)
            .await
            .unwrap();
        let request = Request::builder()
            .method(Method::GET)
            .uri("https://http2.akamai.com/")
            .body(())
            .unwrap();
        let (resp, _) = client.send_request(request, true).unwrap();
        // must not panic, whatever the outcome
        let _ = h2.drive(resp).await;
        let _ = tokio::time::timeout(std::time::Duration::from_millis(100), &mut h2).await;
    };

    join(mock, h2).await;
}
