#[cfg(kani)]
mod proofs {
    macro_rules! h { ($name:ident, $unw:expr) => { #[kani::proof] #[kani::unwind($unw)] fn $name() { h2::verif_harness::$name() } }; }
    h!(fc_inc_window_bounds, 2);
    h!(prio_probe1, 3);
    h!(prio_probe2, 3);
    h!(prio_probe3, 3);
    h!(micro_store, 3);
    h!(micro_buffer, 3);
    h!(state_send_open, 2);
    h!(budget_step, 2);
    h!(huff_decode_2, 4);
    h!(huff_decode_3, 5);
    h!(huff_decode_only_2, 4);
    h!(mid_setup_only, 3);
    h!(mid_reserve, 3);
    h!(wu_roundtrip, 10);
    h!(mid_pop_frame, 3);
    h!(pop_frame_rc1, 3);
    #[kani::proof] #[kani::unwind(2)]
    #[kani::stub(h2::proto::streams::store::Store::find_mut, h2::proto::streams::store::stub_find_mut)]
    #[kani::stub(h2::proto::streams::prioritize::Prioritize::clear_queue, h2::proto::streams::prioritize::kani_h::stub_clear_queue)]
    #[kani::stub(h2::proto::streams::prioritize::Prioritize::reclaim_all_capacity, h2::proto::streams::prioritize::kani_h::stub_reclaim_all)]
    fn pop_frame_sz_concrete() { h2::verif_harness::pop_frame_sz_concrete() }
    #[kani::proof] #[kani::unwind(2)]
    #[kani::stub(h2::proto::streams::store::Store::find_mut, h2::proto::streams::store::stub_find_mut)]
    #[kani::stub(h2::proto::streams::prioritize::Prioritize::clear_queue, h2::proto::streams::prioritize::kani_h::stub_clear_queue)]
    #[kani::stub(h2::proto::streams::prioritize::Prioritize::reclaim_all_capacity, h2::proto::streams::prioritize::kani_h::stub_reclaim_all)]
    fn pop_frame_reset_frame() { h2::verif_harness::pop_frame_reset_frame() }

    #[kani::proof] #[kani::unwind(2)]
    #[kani::stub(h2::proto::streams::store::Store::find_mut, h2::proto::streams::store::stub_find_mut)]
    #[kani::stub(h2::proto::streams::prioritize::Prioritize::clear_queue, h2::proto::streams::prioritize::kani_h::stub_clear_queue)]
    #[kani::stub(h2::proto::streams::prioritize::Prioritize::reclaim_all_capacity, h2::proto::streams::prioritize::kani_h::stub_reclaim_all)]
    fn pop_frame_one_iter() { h2::verif_harness::pop_frame_one_iter() }
    h!(two_stream_conn_update, 3);
    h!(settings_two_streams, 4);
    #[kani::proof] #[kani::unwind(4)]
    #[kani::stub(bytes::BytesMut::reserve_inner, no_growth)]
    fn recv_data_step() { h2::verif_harness::recv_data_step() }
    #[kani::proof] #[kani::unwind(6)]
    #[kani::stub(bytes::BytesMut::reserve_inner, no_growth)]
    #[kani::stub(h2::hpack::decoder::Decoder::decode_literal, h2::hpack::decoder::kani_h::no_literal)]
    fn hpack_block_tags_isi() { h2::verif_harness::hpack_block_tags_isi() }

    #[kani::proof] #[kani::unwind(12)]
    #[kani::stub(bytes::BytesMut::reserve_inner, no_growth)]
    fn srv_pseudo_presence() { h2::verif_harness::srv_pseudo_presence() }

    #[kani::proof] #[kani::unwind(10)]
    #[kani::stub(bytes::BytesMut::reserve_inner, no_growth)]
    fn write_ping_partial() { h2::verif_harness::write_ping_partial() }
    #[kani::proof] #[kani::unwind(6)]
    #[kani::stub(bytes::BytesMut::reserve_inner, no_growth)]
    fn hpack_block_indexed() { h2::verif_harness::hpack_block_indexed() }

    h!(prio_probe3_noeos, 3);
    h!(prio_probe3_eos, 3);
    h!(m1_try_assign, 3);
    h!(m2_queue_frame, 3);
    h!(m3_close_reserve0, 3);
    #[kani::proof] #[kani::unwind(8)]
    #[kani::stub(bytes::BytesMut::reserve_inner, no_growth)]
    fn hpack_decode_probe_stub() { h2::verif_harness::hpack_decode_probe() }


    fn no_growth(_this: &mut bytes::BytesMut, _additional: usize, _allocate: bool) -> bool {
        panic!("BytesMut growth not expected: harness pre-reserves");
    }
    #[kani::proof] #[kani::unwind(4)]
    #[kani::stub(bytes::BytesMut::reserve_inner, no_growth)]
    fn huff_decode_only_2_stub() { h2::verif_harness::huff_decode_only_2() }
    #[kani::proof] #[kani::unwind(14)]
    #[kani::stub(bytes::BytesMut::reserve_inner, no_growth)]
    fn settings_roundtrip_stub() { h2::verif_harness::settings_roundtrip() }

    h!(decode_int_probe, 8);
    h!(hpack_decode_probe, 8);
    h!(settings_roundtrip, 14);
}
