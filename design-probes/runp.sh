#!/bin/bash
# usage: runp.sh harness [extra kani args]
h=$1; shift
cd /var/tmp/h2probe/ext
start=$(date +%s)
CARGO_NET_OFFLINE=true timeout ${CAP:-300} cargo kani --target-dir /var/tmp/h2probe/tgt/${h##*::}${TAG} --harness $h --exact "$@" > /var/tmp/h2probe/log.${h##*::}${TAG} 2>&1
rc=$?
end=$(date +%s)
echo "$h rc=$rc wall=$((end-start))s $(grep -E 'VERIFICATION|Runtime Symex|Runtime Convert SSA|Runtime Solver|Verification Time' /var/tmp/h2probe/log.${h##*::}${TAG} | tr '\n' ' ')" >> /var/tmp/h2probe/results.txt
