// Stub bodies that live in the external proof crate (they only name public types).
// Stubs that must name private h2 types live in /verif/harness/**.rs (`verif_h` modules).

/// `bytes::BytesMut::reserve_inner` — the growth path.  Harnesses pre-reserve;
/// because this stub panics, a passing run also shows that growth never happened.
pub fn no_growth(_this: &mut bytes::BytesMut, _additional: usize, _allocate: bool) -> bool {
    panic!("BytesMut growth not expected: harness pre-reserves");
}

/// "Every `Bytes` in this query is static": the non-static vtable entries of the `bytes`
/// crate become unreachability stubs.  CBMC resolves the manual vtable's function pointers
/// by signature, so every drop / clone of a `Bytes` (inside `HeaderValue`, `HeaderName`,
/// `BytesStr`, `proto::Error`) otherwise inlines the promotable / shared / owned
/// implementations at every site of the drop glue.
pub unsafe fn bytes_drop_unreachable(_data: *mut (), _ptr: *const u8, _len: usize) {
    panic!("UNREACHABLE-STUB a non-static Bytes was dropped");
}
pub unsafe fn bytes_clone_unreachable(_data: &core::sync::atomic::AtomicPtr<()>, _ptr: *const u8, _len: usize) -> bytes::Bytes {
    panic!("UNREACHABLE-STUB a non-static Bytes was cloned");
}
