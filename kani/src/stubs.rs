// Stub bodies that live in the external proof crate (they only name public types).
// Stubs that must name private h2 types live in /verif/harness/**.rs (`verif_h` modules).

/// `bytes::BytesMut::reserve_inner` — the growth path.  Harnesses pre-reserve;
/// because this stub panics, a passing run also shows that growth never happened.
pub fn no_growth(_this: &mut bytes::BytesMut, _additional: usize, _allocate: bool) -> bool {
    panic!("BytesMut growth not expected: harness pre-reserves");
}
